"""C12 - SFTP transfers reproduce the source bytes exactly or report failure."""
import asyncio
import os
import random
import shutil
import tempfile

from .. import core, sshutil
from .. import c12_drive as D
from ..core import zl, cbool, clist, cz

IMPORTS = 'From AV Require Import Base.Prelude Model.SftpIO Corr.C12Corr.'

# The server-side copy-data loop (sftp.py _process_copy_data) treats a short read of the server's own
# read() as end of file. That is outside the mechanisms this property is anchored in (client-side
# scheduler, reassembly, copy loop); it is recorded in the evidence, and only reported as a failing input
# when this flag is set.
COPY_DATA_SHORT_READ_IS_VIOLATION = False


def report(ctx, stage, what, rp):
    """failing_input, but one report per (defect class, stage): further inputs of a class already reported
    in this stage are only counted"""
    cls = rp.get('class')
    if cls:
        seen = ctx.__dict__.setdefault('_c12_classes', set())
        ctx.count('%s.%s' % (cls, stage), group='oracle')
        if (cls, stage) in seen:
            return
        seen.add((cls, stage))
    ctx.failing_input(what, rp)



# ---------------------------------------------------------------------------------------------
# generators

def gen_bytes(rng, n):
    return bytes(rng.randint(1, 255) for _ in range(n))


def gen_geometry(rng):
    return rng.choice([1, 2, 3, 4, 5, 8, 16]), rng.choice([1, 1, 2, 3, 4, 8])


def near(rng, bs, mx, cap=96):
    base = rng.choice([0, bs, 2 * bs, bs * mx, 2 * bs * mx, bs * (mx + 1), 3 * bs * mx, rng.randint(0, cap)])
    return max(0, min(cap, base + rng.choice([-1, 0, 0, 1, 2])))


class Policy:
    """On-line schedule generator: which outstanding request to complete next and how."""

    def __init__(self, rng, F, kind, mode, order, short, err_at):
        self.rng, self.F, self.kind, self.mode = rng, F, kind, mode
        self.order, self.short, self.err_at = order, short, err_at
        self.n = 0
        self.flags = set()

    def pick(self, n):
        if self.order == 'fifo':
            return 0
        if self.order == 'lifo':
            return n - 1
        return self.rng.randrange(n)

    def count(self, avail):
        if self.short == 'full':
            return avail
        if self.short == 'one':
            return 1
        if self.short == 'half':
            return max(1, avail // 2)
        return self.rng.randint(1, avail)

    def honest(self, req):
        E = len(self.F)
        if self.kind == 'w':
            return ('ok',)
        if req.offset >= E:
            self.flags.add('eof')
            return ('eof',) if self.kind == 'r' else ('data', b'')
        avail = min(req.size, E - req.offset)
        c = self.count(avail)
        if c < req.size:
            self.flags.add('short')
        return ('data', self.F[req.offset:req.offset + c])

    def malformed(self, req):
        r = self.rng.random()
        if self.kind == 'w':
            return ('err', 'sftp')
        if r < 0.3:
            return ('data', b'')                                   # zero-length non-EOF reply
        if r < 0.5:
            return ('data', gen_bytes(self.rng, req.size + self.rng.randint(1, 3)))   # longer than asked
        if r < 0.7:
            return ('eof',)                                        # premature EOF
        if r < 0.85:
            return ('data', gen_bytes(self.rng, self.rng.randint(1, max(1, req.size))))   # wrong bytes
        return ('werr', b'x') if self.kind == 's' else ('err', 'os')

    def __call__(self, out):
        i = self.pick(len(out))
        req = out[i]
        self.n += 1
        if self.mode == 'error' and self.n == self.err_at:
            self.flags.add('err')
            if self.kind == 's' and self.rng.random() < 0.4:
                h = self.honest(req)
                return i, ('werr', h[1] if h[0] == 'data' else b'')
            return i, ('err', self.rng.choice(['sftp', 'os']))
        if self.mode == 'malformed' and self.rng.random() < 0.35:
            self.flags.add('malformed')
            r = self.malformed(req)
            if r[0] in ('err', 'werr'):
                self.flags.add('err')
            return i, r
        return i, self.honest(req)

    def batch(self, out):
        """complete several outstanding requests in one loop iteration (honest replies only)"""
        k = self.rng.randint(1, len(out))
        idx = sorted(self.rng.sample(range(len(out)), k))
        self.n += k
        if k > 1:
            self.flags.add('batched')
        return [(i, self.honest(out[i])) for i in idx]


class Recorded:
    """Replays recorded steps."""

    def __init__(self, steps):
        self.steps = list(steps)

    def __call__(self, out):
        if not self.steps:
            return 0, ('err', 'sftp')       # recorded schedule exhausted: end the run
        i, r = self.steps.pop(0)
        return i, r


def step_to_json(s):
    i, r = s
    return [i, [r[0]] + [x.hex() if isinstance(x, (bytes, bytearray)) else x for x in r[1:]]]


def step_from_json(j):
    i, r = j
    k = r[0]
    if k in ('data', 'werr'):
        return i, (k, bytes.fromhex(r[1]))
    return i, tuple(r)


def coq_reply(kind, r):
    k = r[0]
    if kind == 'r':
        return {'data': lambda: 'RData ' + zl(r[1]), 'eof': lambda: 'REof', 'err': lambda: 'RErr'}[k]()
    if kind == 'w':
        return 'WOk' if k == 'ok' else 'WErr'
    return {'data': lambda: 'CData ' + zl(r[1]), 'eof': lambda: 'CEof', 'err': lambda: 'CErr',
            'werr': lambda: 'CErr'}[k]()


def coq_steps(kind, steps):
    return clist(steps, lambda s: '(%d%%nat, %s)' % (s[0], coq_reply(kind, s[1])))


def coq_pairs(ps):
    return clist(ps, lambda p: '(%s, %s)' % (cz(p[0]), cz(p[1])))


def coq_result(res):
    return 'Done ' + zl(res[1]) if res[0] == 'done' else 'Failed'


def pick_mode(rng):
    r = rng.random()
    return 'honest' if r < 0.62 else ('error' if r < 0.8 else 'malformed')


def new_policy(rng, F, kind):
    mode = pick_mode(rng)
    return Policy(rng, F, kind, mode, rng.choice(['fifo', 'lifo', 'random', 'random']),
                  rng.choice(['full', 'one', 'half', 'random', 'random']), rng.randint(1, 12))


def partition_ok(sent, start, n):
    """the requests cover [start, start+n) exactly once, nothing else"""
    pos = start
    for o, z in sorted(sent):
        if o != pos or z <= 0:
            return False
        pos += z
    return pos == start + n


# ---------------------------------------------------------------------------------------------
# stage 1: reader / writer / copier against the fake handler

def run_reader_case(p, decide, batch=None):
    io = D.FakeIO()
    steps, res, stuck = sshutil.run(D.drive(io, D.reader_op(io, p['bs'], p['mx'], p['start'], p['size']), decide, batch))
    return io, steps, res, stuck


def reader_oracle(p, F, steps, res, stuck):
    """None if the property holds on this run, else a description."""
    had_err = any(r[0] == 'err' for _, r in steps)
    if stuck:
        return 'operation never finished although every outstanding request was answered'
    if had_err:
        return None if res[0] == 'failed' else 'a block failed but the read returned normally'
    exp = F[p['start']:p['start'] + p['size']]
    if res[0] == 'failed':
        return 'read raised %s although no block failed' % res[1]
    if bytes(res[1]) != exp:
        return 'read returned %d bytes differing from the source slice (%d bytes)' % (len(res[1]), len(exp))
    return None


def stage_reader(ctx, n):
    master = ctx.rng
    cases = []
    seen_flags = set()
    for k in range(n):
        rng = random.Random(master.getrandbits(64))   # per-case stream: a case cannot disturb the next
        bs, mx = gen_geometry(rng)
        E = near(rng, bs, mx)
        F = gen_bytes(rng, E)
        start = rng.choice([0, 0, 0, rng.randint(0, E), max(0, E - 1), E, E + 3])
        size = near(rng, bs, mx)
        if rng.random() < 0.3:
            size = max(0, E - start + rng.choice([-1, 0, 1]))
        p = {'bs': bs, 'mx': mx, 'start': start, 'size': size}
        pol = new_policy(rng, F, 'r')
        batched = pol.mode == 'honest' and rng.random() < 0.25
        io, steps, res, stuck = run_reader_case(p, pol, pol.batch if batched else None)
        seen_flags |= pol.flags
        honest = pol.mode != 'malformed' or 'malformed' not in pol.flags
        ctx.count('reader.' + pol.mode + ('.batched' if batched else ''))
        ctx.count('reader.result.' + res[0])
        ctx.note_case(('reader', bs, mx, start, size, E, tuple((i, r[0], len(r[1]) if len(r) > 1 and isinstance(r[1], bytes) else 0)
                                                            for i, r in steps)),
                      nontrivial=len(steps) >= 2)
        if honest:
            bad = reader_oracle(p, F, steps, res, stuck)
            if bad:
                ctx.failing_input(f'_SFTPFileReader(block_size={bs}, max_requests={mx}, offset={start}, size={size}) on a '
                                  f'{E}-byte file: {bad}',
                                  {'kind': 'reader', 'p': p, 'F': F.hex(), 'batched': batched,
                                   'steps': [step_to_json(s) for s in steps]})
        elif stuck:
            ctx.count('reader.malformed_stuck')
        if not batched and not stuck:
            cases.append('(%d, %d, %d, %d, %s, %s, %s)' % (bs, mx, start, size, coq_steps('r', steps),
                                                           coq_pairs(io.sent()), coq_result(res)))
        if k == 0:
            ctx.sample({'reader': {'p': p, 'file_len': E, 'steps': [step_to_json(s) for s in steps][:6], 'result': res[0]}})
    bad = ctx.coq_cases('reader', IMPORTS, 'chk_reader', cases,
                        ty='Z * Z * Z * Z * list (nat * rreply) * list (Z * Z) * result bytes')
    if bad:
        ctx.broke('correspondence:reader', f'{len(bad)} of {len(cases)} cases differ; first: {cases[bad[0]][:1500]}')
    for need in ('short', 'eof', 'err', 'batched', 'malformed'):
        if need not in seen_flags:
            ctx.broke('vacuity:reader-' + need, 'no reader case exercised ' + need)


def run_writer_case(p, data, dst0, decide):
    io = D.FakeIO(dst0)
    steps, res, stuck = sshutil.run(D.drive(io, D.writer_op(io, p['bs'], p['mx'], p['start'], data), decide))
    return io, steps, res, stuck


def expected_write(dst0, start, data):
    out = bytearray(dst0)
    if data:
        if start > len(out):
            out += b'\0' * (start - len(out))
        out[start:start + len(data)] = data
    return bytes(out)


def writer_oracle(p, data, dst0, io, steps, res, stuck):
    had_err = any(r[0] == 'err' for _, r in steps)
    if stuck:
        return 'operation never finished although every outstanding request was answered'
    if had_err:
        return None if res[0] == 'failed' else 'a block failed but the write returned normally'
    if res[0] == 'failed':
        return 'write raised %s although no block failed' % res[1]
    if bytes(io.dst) != expected_write(dst0, p['start'], data):
        return 'destination differs from the data written'
    if not partition_ok(io.sent(), p['start'], len(data)):
        return 'the write requests do not cover the data exactly once: %r' % (io.sent(),)
    return None


def stage_writer(ctx, n):
    master = ctx.rng
    cases = []
    errs = 0
    for k in range(n):
        rng = random.Random(master.getrandbits(64))   # per-case stream: a case cannot disturb the next
        bs, mx = gen_geometry(rng)
        data = gen_bytes(rng, near(rng, bs, mx))
        dst0 = gen_bytes(rng, rng.choice([0, 0, rng.randint(0, 40), len(data) + 5]))
        start = rng.choice([0, 0, rng.randint(0, 30), len(dst0), len(dst0) + 4])
        p = {'bs': bs, 'mx': mx, 'start': start}
        pol = new_policy(rng, b'', 'w')
        io, steps, res, stuck = run_writer_case(p, data, dst0, pol)
        errs += 'err' in pol.flags or any(r[0] == 'err' for _, r in steps)
        ctx.count('writer.' + pol.mode)
        ctx.count('writer.result.' + res[0])
        ctx.note_case(('writer', bs, mx, start, len(data), len(dst0), tuple((i, r[0]) for i, r in steps)),
                      nontrivial=len(steps) >= 2)
        bad = writer_oracle(p, data, dst0, io, steps, res, stuck)
        if bad:
            ctx.failing_input(f'_SFTPFileWriter(block_size={bs}, max_requests={mx}, offset={start}, {len(data)} bytes): {bad}',
                              {'kind': 'writer', 'p': p, 'data': data.hex(), 'dst0': dst0.hex(),
                               'steps': [step_to_json(s) for s in steps]})
        if not stuck:
            obs = ('done', bytes(io.dst)) if res[0] == 'done' else res
            cases.append('(%d, %d, %d, %s, %s, %s, %s, %s)' % (bs, mx, start, zl(data), zl(dst0), coq_steps('w', steps),
                                                               coq_pairs(io.sent()), coq_result(obs)))
        if k == 0:
            ctx.sample({'writer': {'p': p, 'data_len': len(data), 'steps': [step_to_json(s) for s in steps][:6], 'result': res[0]}})
    bad = ctx.coq_cases('writer', IMPORTS, 'chk_writer', cases,
                        ty='Z * Z * Z * bytes * bytes * list (nat * wreply) * list (Z * Z) * result bytes')
    if bad:
        ctx.broke('correspondence:writer', f'{len(bad)} of {len(cases)} cases differ; first: {cases[bad[0]][:1500]}')
    if not errs:
        ctx.broke('vacuity:writer-err', 'no writer case had a failing block')


def gen_layout(rng, cap=96):
    """data extents [(start, stop)] sorted and separated, and the file size"""
    ext = []
    pos = rng.choice([0, 0, rng.randint(1, 8)])
    for _ in range(rng.randint(0, 4)):
        ln = rng.randint(1, 12)
        if pos + ln > cap:
            break
        ext.append((pos, pos + ln))
        pos += ln + rng.randint(1, 10)
    last = ext[-1][1] if ext else 0
    size = last + rng.choice([0, 0, 0, rng.randint(1, 9)])
    return ext, size


def layout_file(rng, ext, size):
    F = bytearray(size)
    for a, b in ext:
        F[a:b] = gen_bytes(rng, b - a)
    return bytes(F)


def run_copier_case(p, ranges, decide):
    io = D.FakeIO()
    io.src_close_fail = p.get('src_close_fail')
    io.dst_close_fail = p.get('dst_close_fail')
    steps, res, stuck = sshutil.run(D.drive(io, D.copier_op(io, p['bs'], p['mx'], p['total'], p['sparse'], ranges), decide))
    return io, steps, res, stuck


def copier_oracle(p, F, io, steps, res, stuck):
    had_err = any(r[0] in ('err', 'werr') for _, r in steps)
    if stuck:
        return 'operation never finished although every outstanding request was answered'
    if p.get('src_close_fail') or p.get('dst_close_fail'):
        which = ' and '.join(w for w, k in (('source', 'src_close_fail'), ('destination', 'dst_close_fail')) if p.get(k))
        return None if res[0] == 'failed' else f'closing the {which} failed but the copy returned normally'
    if had_err:
        return None if res[0] == 'failed' else 'a block failed but the copy returned normally'
    total = p['total']
    if not p['sparse'] and len(F) < total:
        return None if res[0] == 'failed' else \
            'source ended at %d before its announced size %d but the non-sparse copy returned normally' % (len(F), total)
    if res[0] == 'failed':
        return 'copy raised %s although no block failed and the source was complete' % res[1]
    if bytes(io.dst) != F[:total]:
        return 'copy returned normally but the destination (%d bytes) differs from the source (%d bytes)' % (
            len(io.dst), len(F[:total]))
    return None


def stage_copier(ctx, n):
    master = ctx.rng
    cases = []
    case_honest, case_sparse = [], []
    seen = set()
    for k in range(n):
        rng = random.Random(master.getrandbits(64))   # per-case stream: a case cannot disturb the next
        bs, mx = gen_geometry(rng)
        sparse = rng.random() < 0.45
        if sparse:
            ext, size = gen_layout(rng)
            F = layout_file(rng, ext, size)
            total = size
            ranges = sshutil.run(D.real_request_ranges(ext, size, 0, total))
            layout = {'extents': ext, 'size': size, 'trailing_hole': size > (ext[-1][1] if ext else 0)}
        else:
            E = near(rng, bs, mx)
            F = gen_bytes(rng, E)
            total = max(0, E + rng.choice([0, 0, 0, 0, -1, -3, 1, 2, bs, bs * mx]))
            ranges = []
            layout = None
            if total > E:
                seen.add('short_source')
        p = {'bs': bs, 'mx': mx, 'total': total, 'sparse': sparse}
        # fault at close: every 8 cases one failing destination close, one failing source close, one of both
        if k % 8 in (1, 5):
            p['dst_close_fail'] = 'sftp' if k % 16 < 8 else 'os'
        if k % 8 in (3, 5):
            p['src_close_fail'] = 'os' if k % 16 < 8 else 'sftp'
        pol = new_policy(rng, F, 's')
        io, steps, res, stuck = run_copier_case(p, ranges, pol)
        seen |= pol.flags
        body_failed = any(r[0] in ('err', 'werr') for _, r in steps)
        for w in ('src', 'dst'):
            if p.get(w + '_close_fail'):
                seen.add('%s_close_fail_after_%s' % (w, 'error' if body_failed else 'clean_copy'))
        honest = 'malformed' not in pol.flags
        ctx.count('copier.' + pol.mode + ('.sparse' if sparse else ''))
        ctx.count('copier.result.' + res[0])
        ctx.note_case(('copier', bs, mx, total, sparse, tuple(ranges), len(F),
                       tuple((i, r[0], len(r[1]) if len(r) > 1 and isinstance(r[1], bytes) else 0) for i, r in steps)),
                      nontrivial=len(steps) >= 2)
        if honest:
            bad = copier_oracle(p, F, io, steps, res, stuck)
            if bad:
                rp = {'kind': 'copier', 'p': p, 'F': F.hex(), 'ranges': ranges, 'layout': layout,
                      'steps': [step_to_json(s) for s in steps]}
                if sparse and layout['trailing_hole'] and res[0] == 'done' and bytes(io.dst) == F[:len(io.dst)]:
                    rp['class'] = 'sparse_trailing_hole'
                report(ctx, 'copier', f'_SFTPFileCopier(block_size={bs}, max_requests={mx}, total_bytes={total}, sparse={sparse}'
                       + (f', data extents {layout["extents"]} in a {layout["size"]}-byte file' if sparse else
                          f', source of {len(F)} bytes') + f'): {bad}', rp)
        if not stuck:
            out = 'None' if res[0] == 'done' else '(Some %s)' % {'src_close': 'ESrcClose', 'dst_close': 'EDstClose'}.get(
                res[2] if len(res) > 2 else 'body', 'EBody')
            cases.append('(%d, %d, %d, %s, %s, %s, %s, %s, %s, %s, %s, %s)' % (
                bs, mx, total, cbool(sparse), coq_pairs(ranges), coq_steps('s', steps), coq_pairs(io.sent()),
                cbool(not p.get('src_close_fail')), cbool(not p.get('dst_close_fail')), out, cbool('dst' in io.closed),
                zl(bytes(io.dst))))
            case_honest.append(honest)
            case_sparse.append(sparse)
        if k == 0:
            ctx.sample({'copier': {'p': p, 'source_len': len(F), 'ranges': ranges,
                                   'steps': [step_to_json(s) for s in steps][:6], 'result': res[0]}})
    ty = 'Z * Z * Z * bool * list (Z * Z) * list (nat * creply) * list (Z * Z) * bool * bool * option cerr * bool * bytes'
    # /repo carries the repair of the sparse copy (model parameter c_fix = true); a tree without it is still
    # recognised (snapshot model) so that the trailing-hole defect is reported by the oracle, not as a broken model
    bad = ctx.coq_cases('copier', IMPORTS, 'chk_copier_run true', cases, ty=ty)
    variant = 'repaired sparse copy (C12_sparse_repaired, C12_sparse_repaired_total apply)'
    if bad:
        bad2 = ctx.coq_cases('copier_snapshot_model', IMPORTS, 'chk_copier_run false', cases, ty=ty)
        if bad2 == [] and all(case_sparse[i] for i in bad):
            variant = 'sparse copy without the repair (C12_sparse_partial / C12_sparse_trailing_hole_refuted apply)'
            ctx.cov['correspondence']['copier']['note'] = 'mismatches are against the repaired model; all cases agree with the snapshot model'
        else:
            ctx.broke('correspondence:copier', f'{len(bad)} of {len(cases)} cases differ; first: {cases[bad[0]][:1500]}')
    ctx.cov['oracle']['copier_variant'] = variant
    for need in ('short', 'eof', 'err', 'short_source', 'malformed', 'dst_close_fail_after_clean_copy',
                 'dst_close_fail_after_error', 'src_close_fail_after_clean_copy', 'src_close_fail_after_error'):
        if need not in seen:
            ctx.broke('vacuity:copier-' + need, 'no copier case exercised ' + need)


# ---------------------------------------------------------------------------------------------
# stage 1b: every schedule of small configurations (all completion orders x all short counts)

class Enumerated:
    """Honest policy whose choices follow `prefix` and then take the first alternative; the trace of
    (choice, number of alternatives) lets the caller step to the next schedule in depth-first order."""

    def __init__(self, F, kind, prefix):
        self.F, self.kind, self.prefix = F, kind, list(prefix)
        self.trace = []

    def choose(self, n):
        k = len(self.trace)
        c = self.prefix[k] if k < len(self.prefix) else 0
        c = min(c, n - 1)
        self.trace.append((c, n))
        return c

    def __call__(self, out):
        i = self.choose(len(out))
        req = out[i]
        E = len(self.F)
        if req.offset >= E:
            return i, (('eof',) if self.kind == 'r' else ('data', b''))
        avail = min(req.size, E - req.offset)
        c = 1 + self.choose(avail)
        return i, ('data', self.F[req.offset:req.offset + c])


def next_prefix(trace):
    t = list(trace)
    while t:
        c, n = t.pop()
        if c + 1 < n:
            return [x for x, _ in t] + [c + 1]
    return None


def stage_exhaustive(ctx, limit):
    configs = [('r', 2, 2, 0, 5, 4), ('r', 2, 3, 1, 6, 5), ('s', 2, 2, 0, 5, 5), ('s', 2, 2, 0, 5, 3), ('r', 3, 2, 0, 7, 9)]
    if ctx.tier == 'thorough':
        configs += [('r', 1, 4, 0, 5, 4), ('r', 2, 3, 0, 8, 7), ('s', 3, 3, 0, 9, 9), ('s', 2, 3, 0, 7, 5)]
    rcases, ccases = [], []
    info = []
    for kind, bs, mx, start, size, E in configs:
        F = bytes(range(1, E + 1))
        prefix, n, complete = [], 0, False
        while prefix is not None and n < limit:
            pol = Enumerated(F, kind, prefix)
            if kind == 'r':
                p = {'bs': bs, 'mx': mx, 'start': start, 'size': size}
                io, steps, res, stuck = run_reader_case(p, pol)
                bad = reader_oracle(p, F, steps, res, stuck)
                if bad:
                    ctx.failing_input(f'_SFTPFileReader(block_size={bs}, max_requests={mx}, offset={start}, size={size}) on a '
                                      f'{E}-byte file: {bad}',
                                      {'kind': 'reader', 'p': p, 'F': F.hex(), 'batched': False,
                                       'steps': [step_to_json(x) for x in steps]})
                if not stuck:
                    rcases.append('(%d, %d, %d, %d, %s, %s, %s)' % (bs, mx, start, size, coq_steps('r', steps),
                                                                    coq_pairs(io.sent()), coq_result(res)))
            else:
                p = {'bs': bs, 'mx': mx, 'total': size, 'sparse': False}
                io, steps, res, stuck = run_copier_case(p, [], pol)
                bad = copier_oracle(p, F, io, steps, res, stuck)
                if bad:
                    ctx.failing_input(f'_SFTPFileCopier(block_size={bs}, max_requests={mx}, total_bytes={size}, sparse=False, '
                                      f'source of {E} bytes): {bad}',
                                      {'kind': 'copier', 'p': p, 'F': F.hex(), 'ranges': [], 'layout': None,
                                       'steps': [step_to_json(x) for x in steps]})
                if not stuck:
                    ccases.append('(%d, %d, %d, false, [], %s, %s, %s, %s)' % (
                        bs, mx, size, coq_steps('s', steps), coq_pairs(io.sent()),
                        'COk' if res[0] == 'done' else 'CFail', zl(bytes(io.dst))))
            ctx.note_case(('exh', kind, bs, mx, start, size, E, tuple(c for c, _ in pol.trace)), nontrivial=len(steps) >= 2)
            n += 1
            prefix = next_prefix(pol.trace)
        complete = prefix is None
        ctx.count('exhaustive.schedules', n)
        info.append({'op': 'read' if kind == 'r' else 'copy', 'block_size': bs, 'max_requests': mx, 'start': start,
                     'size': size, 'file_len': E, 'schedules': n, 'all_schedules_enumerated': complete})
    ctx.cov['exhaustive'] = info
    bad = ctx.coq_cases('reader_exhaustive', IMPORTS, 'chk_reader', rcases,
                        ty='Z * Z * Z * Z * list (nat * rreply) * list (Z * Z) * result bytes')
    if bad:
        ctx.broke('correspondence:reader_exhaustive', f'{len(bad)} of {len(rcases)} differ; first: {rcases[bad[0]][:1200]}')
    bad = ctx.coq_cases('copier_exhaustive', IMPORTS, 'chk_copier', ccases,
                        ty='Z * Z * Z * bool * list (Z * Z) * list (nat * creply) * list (Z * Z) * cstatus * bytes')
    if bad:
        ctx.broke('correspondence:copier_exhaustive', f'{len(bad)} of {len(ccases)} differ; first: {ccases[bad[0]][:1200]}')


# ---------------------------------------------------------------------------------------------
# stage 2: sparse range iteration

class RangesHandler:
    """handler.request_ranges served from the real _request_ranges, K ranges per reply"""

    def __init__(self, ext, size, K):
        self.ext, self.size, self.K = ext, size, K
        self.requests = 0

    async def request_ranges(self, handle, offset, length):
        import asyncssh
        self.requests += 1
        rs = await D.real_request_ranges(self.ext, self.size, offset, length)
        pg = rs[:self.K]
        if not pg:
            raise asyncssh.SFTPEOFError()
        from asyncssh import sftp as _s
        return _s.SFTPRanges(pg, len(pg) < self.K)


async def real_client_ranges(ext, size, K):
    from asyncssh import sftp
    h = RangesHandler(ext, size, K)
    h.limits = sftp.SFTPLimits(0, 1 << 22, 1 << 22, 0)
    f = sftp.SFTPClientFile(h, b'h', False, None, 'strict', 0, 1)
    out = []
    async for r in f.request_ranges(0, size):
        out.append((int(r[0]), int(r[1])))
        if len(out) > 1000:
            break
    return out, h.requests


def data_positions(ranges):
    s = set()
    for o, l in ranges:
        s.update(range(o, o + l))
    return s


def stage_ranges(ctx, n):
    master = ctx.rng
    c1, c2 = [], []
    paged = 0
    for k in range(n):
        rng = random.Random(master.getrandbits(64))   # per-case stream: a case cannot disturb the next
        ext, size = gen_layout(rng)
        if rng.random() < 0.5:
            off, ln = 0, size
        else:
            off = rng.randint(0, size + 2)
            ln = rng.randint(0, size + 2)
        got = sshutil.run(D.real_request_ranges(ext, size, off, ln))
        ctx.note_case(('ranges', tuple(ext), size, off, ln), nontrivial=len(ext) >= 2)
        c1.append('(%s, %d, %d, %s)' % (coq_pairs(ext), off, ln, coq_pairs(got)))
        # direct oracle (whole-file query): the ranges are exactly the data bytes
        if off == 0 and ln == size:
            want = data_positions([(a, b - a) for a, b in ext])
            if data_positions(got) != want or any(l <= 0 for _, l in got):
                ctx.failing_input(f'_request_ranges over extents {ext} of a {size}-byte file returned {got}',
                                  {'kind': 'ranges', 'extents': ext, 'size': size})
        K = rng.choice([1, 1, 2, 3, 128])
        got2, nreq = sshutil.run(real_client_ranges(ext, size, K))
        paged += nreq > 1
        ctx.count('ranges.pages.%s' % ('1' if nreq <= 1 else 'many'))
        c2.append('(%d%%nat, %s, %d, %s)' % (K, coq_pairs(ext), size, coq_pairs(got2)))
        full = sshutil.run(D.real_request_ranges(ext, size, 0, size))
        if got2 != full:
            ctx.failing_input(f'SFTPClientFile.request_ranges with {K} ranges per reply returned {got2}, the file has {full}',
                              {'kind': 'client_ranges', 'extents': ext, 'size': size, 'K': K})
    bad = ctx.coq_cases('request_ranges', IMPORTS, 'chk_ranges', c1, ty='list (Z * Z) * Z * Z * list (Z * Z)')
    if bad:
        ctx.broke('correspondence:request_ranges', f'{len(bad)} differ; first: {c1[bad[0]]}')
    bad = ctx.coq_cases('client_ranges', IMPORTS, 'chk_client_ranges', c2, ty='nat * list (Z * Z) * Z * list (Z * Z)')
    if bad:
        ctx.broke('correspondence:client_ranges', f'{len(bad)} differ; first: {c2[bad[0]]}')
    if not paged:
        ctx.broke('vacuity:ranges-paging', 'no case needed more than one ranges request')


class _NullLog:
    def get_child(self, *a, **k):
        return self

    def __getattr__(self, name):
        return lambda *a, **k: None


def real_server_handler():
    """A real SFTPServerHandler without a connection, for calling its ranges request processing directly.
    None if it cannot be built that way any more (then only the end-to-end sparse transfers cover it)."""
    try:
        from asyncssh import sftp
        from asyncssh.packet import SSHPacket, String, UInt64

        class R:
            logger = _NullLog()
        h = sftp.SFTPServerHandler(None, R(), None, 3)
        h._file_handles
        h._process_ranges
    except Exception:
        return None

    async def call(ext, size, off, ln):
        h._file_handles[b'h'] = D.ExtentFile(ext, size)
        try:
            r = await h._process_ranges(SSHPacket(String(b'h') + UInt64(off) + UInt64(ln)))
        except sftp.SFTPEOFError:
            return None
        return [(int(a), int(b)) for a, b in r.ranges], bool(r.at_end)
    return call


class ServerRangesHandler:
    """client-side handler.request_ranges answered by the real server-side _process_ranges"""

    def __init__(self, call, ext, size):
        import asyncssh
        self.call, self.ext, self.size = call, ext, size
        self.requests = 0
        self.limits = asyncssh.SFTPLimits(0, 1 << 22, 1 << 22, 0)

    async def request_ranges(self, handle, offset, length):
        from asyncssh import sftp
        self.requests += 1
        r = await self.call(self.ext, self.size, offset, length)
        if r is None:
            raise sftp.SFTPEOFError()
        return sftp.SFTPRanges(r[0], r[1])


def layout_n(rng, n):
    ext, pos = [], rng.choice([0, 0, 2])
    for _ in range(n):
        ln = rng.randint(1, 3)
        ext.append((pos, pos + ln))
        pos += ln + rng.randint(1, 3)
    last = ext[-1][1] if ext else 0
    return ext, last + rng.choice([0, 0, 3])


def stage_server_ranges(ctx):
    """The ranges request/reply loop with the real server handler (128 ranges per reply): extent counts on both
    sides of every batching boundary, start offsets 0, at continuation points and arbitrary."""
    call = real_server_handler()
    if call is None:
        ctx.cov['oracle']['server_ranges'] = 'unavailable (SFTPServerHandler cannot be driven directly)'
        return
    from asyncssh import sftp
    rng = random.Random(ctx.rng.getrandbits(64))
    c1, c2 = [], []
    counts = [0, 1, 2, 127, 128, 129, 255, 256, 257, 384, 385, 513]
    if ctx.tier == 'thorough':
        counts += [130, 254, 383, 386, 512, 640, 641]
    multi = 0
    for n in counts:
        ext, size = layout_n(rng, n)
        full = sshutil.run(D.real_request_ranges(ext, size, 0, size))
        offs = {0}
        for k in (1, 127, 128, 129, 256, 257):
            if len(full) >= k:
                offs.add(full[k - 1][0] + full[k - 1][1])
        if size:
            offs.add(rng.randint(0, size))
        for off in sorted(offs):
            ln = size - off
            got = sshutil.run(call(ext, size, off, ln))
            c1.append('(128%%nat, %s, %d, %d, %s)' % (coq_pairs(ext), off, ln, 'None' if got is None else
                                                     '(Some (%s, %s))' % (coq_pairs(got[0]), cbool(got[1]))))
            h = ServerRangesHandler(call, ext, size)
            f = sftp.SFTPClientFile(h, b'h', False, None, 'strict', 0, 1)

            async def collect():
                out = []
                async for r in f.request_ranges(off, ln):
                    out.append((int(r[0]), int(r[1])))
                    if len(out) > 5000:
                        break
                return out
            got2 = sshutil.run(collect())
            multi += h.requests > 2
            want = sshutil.run(D.real_request_ranges(ext, size, off, ln))
            ctx.note_case(('server_ranges', n, off), nontrivial=n > 128)
            c2.append('(128%%nat, %s, %d, %d, %s)' % (coq_pairs(ext), off, ln, coq_pairs(got2)))
            if got2 != want:
                lost = len(want) - len(got2)
                ctx.failing_input(f'ranges of a file with {n} data extents requested from offset {off}: the request/reply loop '
                                  f'(real client iteration against the real server handler) returned {len(got2)} ranges, the file '
                                  f'has {len(want)} from there' + (f' ({lost} lost at the end)' if lost > 0 else ''),
                                  {'kind': 'server_ranges', 'extents': ext, 'size': size, 'off': off})
    ctx.cov['oracle']['server_ranges'] = {'layouts': len(counts), 'cases': len(c1), 'needed_3_or_more_requests': multi}
    bad = ctx.coq_cases('server_ranges', IMPORTS, 'chk_server_ranges', c1,
                        ty='nat * list (Z * Z) * Z * Z * option (list (Z * Z) * bool)', shard=12)
    if bad:
        ctx.broke('correspondence:server_ranges', f'{len(bad)} of {len(c1)} differ; first: {c1[bad[0]][-300:]}')
    bad = ctx.coq_cases('client_server_ranges', IMPORTS, 'chk_client_ranges_from', c2,
                        ty='nat * list (Z * Z) * Z * Z * list (Z * Z)', shard=12)
    if bad:
        ctx.broke('correspondence:client_server_ranges', f'{len(bad)} of {len(c2)} differ; first: {c2[bad[0]][-300:]}')
    if not multi:
        ctx.broke('vacuity:server-ranges', 'no case needed three or more ranges requests')


# ---------------------------------------------------------------------------------------------
# stage 2b: open dispositions (what a destination holds right after it was opened)

def stage_open(ctx):
    import asyncssh
    from asyncssh import sftp
    tmp = os.path.realpath(tempfile.mkdtemp(prefix='c12o-', dir='/var/tmp'))
    try:
        srv = asyncssh.SFTPServer(_StubChan())
        path = os.path.join(tmp, 'f').encode()
        befores = [None, b'', b'stale tail']

        def observe(fn):
            res = []
            for before in befores:
                if os.path.lexists(path):
                    os.remove(path)
                if before is not None:
                    with open(path, 'wb') as f:
                        f.write(before)
                try:
                    fo = fn()
                    fo.close()
                    with open(path, 'rb') as f:
                        got = f.read()
                except (OSError, asyncssh.SFTPError, ValueError):
                    got = None
                res.append((before, got))
            return res
        c0, c3, c56 = [], [], []
        for pflags in range(64):
            acc, fl = sftp._pflags_to_flags(pflags) if hasattr(sftp, '_pflags_to_flags') else (None, None)
            if acc is not None:
                c0.append('(%d, (%d, %d))' % (pflags, acc, fl))
            for before, got in observe(lambda: srv.open(path, pflags, asyncssh.SFTPAttrs())):
                c3.append('(%d, %s, %s)' % (pflags, core.copt(before, zl), core.copt(got, zl)))
                ctx.note_case(('open3', pflags, before), nontrivial=before is not None)
                if pflags == 2 + 8 + 16 and got != b'':
                    ctx.failing_input(f'SFTPServer.open with the flags of mode "wb" on a file holding {before!r} left {got!r}',
                                      {'kind': 'open_disposition', 'api': 'open', 'pflags': pflags})
            pairs = set()
            if acc is not None:
                pairs.add((acc, fl))
            for a in (1, 2, 3, 6):
                pairs.add((a, pflags % 16))          # every disposition 0..7, with and without APPEND_DATA
            for a, f_ in sorted(pairs):
                for before, got in observe(lambda: srv.open56(path, a, f_, asyncssh.SFTPAttrs())):
                    c56.append('(%d, %d, %s, %s)' % (a, f_, core.copt(before, zl), core.copt(got, zl)))
                    ctx.note_case(('open56', a, f_, before), nontrivial=before is not None)
                    if (a, f_) == (acc, fl) and pflags == 2 + 8 + 16 and got != b'':
                        ctx.failing_input(f'SFTPServer.open56 with the access/disposition of mode "wb" (CREATE_TRUNCATE) on a '
                                          f'file holding {before!r} left {got!r}',
                                          {'kind': 'open_disposition', 'api': 'open56', 'access': a, 'flags': f_})
    finally:
        shutil.rmtree(tmp, ignore_errors=True)
    for name, chk, cases, ty in (('pflags_to_flags', 'chk_pflags_to_flags', c0, 'Z * (Z * Z)'),
                                 ('open_v3', 'chk_open_v3', c3, 'Z * option bytes * option bytes'),
                                 ('open_v56', 'chk_open_v56', sorted(set(c56)), 'Z * Z * option bytes * option bytes')):
        bad = ctx.coq_cases(name, IMPORTS, chk, cases, ty=ty)
        if bad:
            ctx.broke('correspondence:' + name, f'{len(bad)} of {len(cases)} differ; first: {cases[bad[0]]}')


class _StubChan:
    def get_connection(self):
        return None


# ---------------------------------------------------------------------------------------------
# stage 3: file object offset tracking

class FileHandler:
    """An ideal in-memory file behind the SFTPClientHandler interface; single reads are capped."""

    def __init__(self, F, cap, maxr, append):
        import asyncssh
        self.F = bytearray(F)
        self.cap = cap
        self.append = append
        self.limits = asyncssh.SFTPLimits(0, maxr, 1 << 22, 0)
        self.logger = D._Log()

    async def read(self, handle, offset, length):
        import asyncssh
        if length < 0 or offset < 0:
            raise OverflowError('negative')          # what UInt32()/UInt64() do in the real handler
        d = bytes(self.F[offset:offset + min(length, self.cap)])
        if not d:
            raise asyncssh.SFTPEOFError()
        return d, False

    async def write(self, handle, offset, data):
        if offset < 0:
            raise OverflowError('negative')
        if self.append:
            self.F += data
        elif data:
            if offset > len(self.F):
                self.F += b'\0' * (offset - len(self.F))
            self.F[offset:offset + len(data)] = data
        return len(data)

    async def fstat(self, handle, flags=0):
        import asyncssh
        return asyncssh.SFTPAttrs(size=len(self.F))


def gen_fops(rng, E):
    ops = []
    for _ in range(rng.randint(1, 8)):
        r = rng.random()
        if r < 0.4:
            size = rng.choice([-1, 0, 1, 2, 3, 5, 8, 13, 40])
            off = None if rng.random() < 0.7 else rng.randint(0, E + 4)
            ops.append(('read', size, off))
        elif r < 0.65:
            d = gen_bytes(rng, rng.choice([0, 1, 2, 3, 5, 9, 17]))
            off = None if rng.random() < 0.7 else rng.randint(0, E + 6)
            ops.append(('write', d, off))
        elif r < 0.9:
            wh = rng.choice([0, 0, 1, 2, 2, 7] if rng.random() < 0.2 else [0, 0, 1, 2])
            ops.append(('seek', rng.randint(0, E + 5) if wh == 0 else rng.randint(0, 4) if wh == 1 else -rng.randint(0, min(E, 6)), wh))
        else:
            ops.append(('tell',))
    return ops


async def run_fileobj(app, bs, mxr, maxr, cap, F0, ops):
    from asyncssh import sftp
    h = FileHandler(F0, cap, maxr, app)
    f = sftp.SFTPClientFile(h, b'h', app, None, 'strict', bs, mxr)
    out = []
    for op in ops:
        try:
            if op[0] == 'read':
                out.append(('bytes', await f.read(op[1], op[2])))
            elif op[0] == 'write':
                out.append(('int', await f.write(op[1], op[2])))
            elif op[0] == 'seek':
                out.append(('int', await f.seek(op[1], op[2])))
            else:
                out.append(('int', await f.tell()))
        except (OverflowError, ValueError):
            out.append(('exc',))
    return out, bytes(h.F)


def fileobj_oracle(app, F0, ops, got, Fend, exact=False):
    """Walk the operations with a reference file and position. A read may return a non-empty prefix of
    what is available (one capped request). After a read with an explicit offset that returned nothing
    both "position unchanged" and "position = that offset" are accepted (P is the set of positions still
    consistent with what was observed). Returns a description of the first inconsistency or None."""
    F = bytearray(F0)
    P = {len(F) if app else 0}
    for op, g in zip(ops, got):
        if op[0] == 'read':
            cands = P if op[2] is None else {op[2]}
            newP = set()
            why = None
            for o in cands:
                size = op[1] if op[1] >= 0 else len(F) - o
                if size < 0 or o < 0:
                    if g[0] == 'exc' or (g[0] == 'bytes' and g[1] == b''):
                        newP |= P
                    else:
                        why = f'read past the end returned {g!r}'
                    continue
                want = bytes(F[o:o + size])
                if g[0] != 'bytes':
                    why = f'{op!r} raised'
                elif exact and g[1] != want:
                    # the server answers every request within its advertised max_read_len in full and block_size is
                    # not 0: whatever path read() takes, it must deliver the whole slice
                    why = (f'{op!r} at position {o} returned {len(g[1])} bytes, the file has {len(want)} there (the server '
                           f'honours its advertised read limit; nothing failed)')
                elif not (want.startswith(g[1]) and (g[1] or not want)):
                    why = f'{op!r} at position {o} returned {g[1][:40]!r} ({len(g[1])} bytes), the file has {want[:40]!r} ({len(want)} bytes) there'
                elif g[1]:
                    newP.add(o + len(g[1]))
                elif op[2] is None:
                    newP.add(o)
                else:
                    newP |= P | {o}
            if not newP:
                return why
            P = newP
        elif op[0] == 'write':
            if g != ('int', len(op[1])):
                return f'write of {len(op[1])} bytes returned {g!r}'
            if app:
                F += op[1]
                P = {len(F)}
            else:
                if op[2] is None and len(P) > 1:
                    return None            # position legitimately ambiguous: stop here
                o = next(iter(P)) if op[2] is None else op[2]
                if o < 0:
                    return None
                if op[1]:
                    if o > len(F):
                        F += b'\0' * (o - len(F))
                    F[o:o + len(op[1])] = op[1]
                P = {o + len(op[1])}
        elif op[0] == 'seek':
            if op[2] == 0:
                P = {op[1]}
            elif op[2] == 1:
                P = {p + op[1] for p in P}
            elif op[2] == 2:
                P = {len(F) + op[1]}
            else:
                if g[0] != 'exc':
                    return f'seek with whence {op[2]} returned {g!r}'
                continue
            if g[0] != 'int' or g[1] not in P:
                return f'{op!r} returned {g!r}, expected position {sorted(P)}'
            P = {g[1]}
        else:
            if g[0] != 'int' or g[1] not in P:
                return f'tell returned {g!r}, expected position {sorted(P)}'
            P = {g[1]}
    if bytes(F) != Fend:
        return 'file content after the operations differs from the reference'
    return None


def coq_fop(op):
    if op[0] == 'read':
        return 'FRead %s %s' % (cz(op[1]), core.copt(op[2], cz))
    if op[0] == 'write':
        return 'FWrite %s %s' % (zl(op[1]), core.copt(op[2], cz))
    if op[0] == 'seek':
        return 'FSeek %s %s' % (cz(op[1]), cz(op[2]))
    return 'FTell'


def coq_fres(g):
    return {'bytes': lambda: 'FBytes ' + zl(g[1]), 'int': lambda: 'FInt ' + cz(g[1]), 'exc': lambda: 'FExc'}[g[0]]()


def stage_fileobj(ctx, n):
    master = ctx.rng
    cases = []
    par = 0
    for k in range(n):
        rng = random.Random(master.getrandbits(64))   # per-case stream: a case cannot disturb the next
        app = rng.random() < 0.35
        bs = rng.choice([0, 1, 2, 3, 4, 8, 16])
        maxr = rng.choice([2, 4, 8, 64])
        cap = rng.choice([1, 2, 3, 64])
        if k % 2 == 0:
            # a server that caps replies exactly at the limit it advertises (as OpenSSH does); block_size below,
            # equal to and above that limit
            maxr = rng.choice([2, 4, 8])
            cap = maxr
            bs = rng.choice([max(1, maxr - 1), maxr, maxr + 1, 2 * maxr, 16, 40])
        exact = bs > 0 and cap >= maxr
        E = rng.randint(0, 40)
        F0 = gen_bytes(rng, E)
        ops = gen_fops(rng, E)
        got, Fend = sshutil.run(run_fileobj(app, bs, rng.choice([1, 2, 4]), maxr, cap, F0, ops))
        par += any(o[0] == 'read' and bs and (o[1] < 0 or o[1] > min(bs, maxr)) for o in ops)
        ctx.note_case(('fileobj', app, bs, maxr, cap, E, tuple((o[0],) + tuple(len(x) if isinstance(x, bytes) else x for x in o[1:])
                                                            for o in ops)), nontrivial=len(ops) >= 3)
        ctx.count('fileobj.' + ('append' if app else 'plain'))
        bad = fileobj_oracle(app, F0, ops, got, Fend, exact)
        if exact:
            ctx.count('fileobj.limit_honouring_server.bs_%s_limit' % ('below' if bs < maxr else 'equal' if bs == maxr else 'above'))
        if bad:
            ctx.failing_input(f'SFTPClientFile(appending={app}, block_size={bs}, server max_read_len={maxr}, replies capped at '
                              f'{cap}) on a {E}-byte file, operations {ops!r}: {bad}',
                              {'kind': 'fileobj', 'app': app, 'bs': bs, 'maxr': maxr, 'cap': cap, 'F0': F0.hex(),
                               'ops': [[o[0]] + [x.hex() if isinstance(x, bytes) else x for x in o[1:]] for o in ops]})
        cases.append('(%s, %d, %d, %d, %d, %s, %s, %s, %s)' % (cbool(app), bs, bs, maxr, cap, zl(F0), clist(ops, coq_fop),
                                                               clist(got, coq_fres), zl(Fend)))
        if k == 0:
            ctx.sample({'fileobj': {'appending': app, 'block_size': bs, 'ops': repr(ops), 'results': repr(got)}})
    bad = ctx.coq_cases('fileobj', IMPORTS, 'chk_fileobj', cases,
                        ty='bool * Z * Z * Z * Z * bytes * list fop * list fres * bytes')
    if bad:
        ctx.broke('correspondence:fileobj', f'{len(bad)} of {len(cases)} differ; first: {cases[bad[0]][:1200]}')
    if not par:
        ctx.broke('vacuity:fileobj-parallel', 'no file-object read took the parallel path')


# ---------------------------------------------------------------------------------------------
# stage 4: end to end against a real SFTPServer that shortens reads

def short_count(n, offset, salt):
    """deterministic 1 <= c <= n"""
    if n <= 1:
        return n
    h = (offset * 2654435761 + salt * 40503 + n * 97) & 0xffffffff
    m = h % 4
    if m == 0:
        return n
    if m == 1:
        return 1 + h // 7 % min(n, 64)
    return 1 + (h // 11) % n


def make_server_class(state):
    import asyncssh

    class ShortSFTP(asyncssh.SFTPServer):
        """Answers reads with fewer bytes than asked (never zero below EOF); can fail one block or end
        the file early while still announcing the full size."""

        def read(self, file_obj, offset, size):
            data = super().read(file_obj, offset, size)
            if state.get('cap_read'):
                data = data[:state['cap_read']]      # enforce the advertised max_read_len by a short reply
            cut = state.get('cut')
            if cut is not None:
                data = data[:max(0, cut - offset)]
            if state.get('fail_at') is not None and offset <= state['fail_at'] < offset + max(1, len(data)):
                state['failed'] = True
                raise asyncssh.SFTPFailure('injected read failure')
            if state.get('short') and data:
                c = short_count(len(data), offset, state['salt'])
                if c < len(data):
                    state['shortened'] = state.get('shortened', 0) + 1
                data = data[:c]
            state['reads'] = state.get('reads', 0) + 1
            if state.get('async'):
                async def later():
                    await asyncio.sleep(0)
                    return data
                return later()
            return data

        def write(self, file_obj, offset, data):
            if state.get('wfail_at') is not None and offset <= state['wfail_at'] < offset + max(1, len(data)):
                state['failed'] = True
                raise asyncssh.SFTPFailure('injected write failure')
            return super().write(file_obj, offset, data)

        def close(self, file_obj):
            # fault at close: the close of the file written to (FXP_CLOSE of an upload / copy destination) or of
            # the file read from is answered with an error although every read and write succeeded
            which = state.get('close_fail')
            try:
                writable = bool(file_obj.writable())
            except Exception:
                writable = False
            res = super().close(file_obj)
            if which and writable == (which == 'dst'):
                state['close_failed'] = state.get('close_failed', 0) + 1
                raise asyncssh.SFTPFailure('injected close failure')
            return res
    return ShortSFTP


def install_jitter(sftp, rng, stats):
    """Delay each read/write reply at the client by a seeded number of loop turns so that replies are
    processed out of order. Uses the private _handler attribute; silently absent if it is gone."""
    h = getattr(sftp, '_handler', None)
    if h is None or not hasattr(h, 'read') or not hasattr(h, 'write'):
        stats['jitter'] = 'unavailable'
        return
    r0, w0 = h.read, h.write
    seq = {'n': 0, 'done': []}

    async def read(handle, offset, length):
        k = seq['n']
        seq['n'] += 1
        res = await r0(handle, offset, length)
        for _ in range(rng.choice([0, 0, 1, 3, 9])):
            await asyncio.sleep(0)
        seq['done'].append(k)
        return res

    async def write(handle, offset, data):
        k = seq['n']
        seq['n'] += 1
        res = await w0(handle, offset, data)
        for _ in range(rng.choice([0, 0, 1, 3, 9])):
            await asyncio.sleep(0)
        seq['done'].append(k)
        return res
    h.read, h.write = read, write
    stats['jitter'] = seq


def fs_supports_holes(d):
    p = os.path.join(d, 'holetest')
    try:
        with open(p, 'wb') as f:
            f.write(b'x' * 4096)
            f.truncate(1 << 20)
        with open(p, 'rb') as f:
            end = f.seek(0, os.SEEK_HOLE)
        return end < (1 << 20)
    except (OSError, AttributeError):
        return False
    finally:
        try:
            os.remove(p)
        except OSError:
            pass


def write_layout(path, rng, blocks, blk=4096):
    """blocks: string of 'D'/'H' per blk bytes. Returns content."""
    content = bytearray()
    with open(path, 'wb') as f:
        for i, c in enumerate(blocks):
            if c == 'D':
                d = gen_bytes(rng, blk)
                f.seek(i * blk)
                f.write(d)
                content += d
            else:
                content += b'\0' * blk
        f.truncate(len(blocks) * blk)
    return bytes(content)


async def e2e(ctx, tmp, replay=None):
    import asyncssh
    rng = ctx.rng
    srv = os.path.join(tmp, 'srv')
    loc = os.path.join(tmp, 'loc')
    os.makedirs(srv)
    os.makedirs(loc)
    state = {'salt': 1}
    cls = make_server_class(state)

    def factory(chan):
        return cls(chan, chroot=srv.encode())
    listener, conn = await sshutil.loopback(srv_kw={'sftp_factory': factory})
    stats = {}
    try:
        sftp = await conn.start_sftp_client()
        install_jitter(sftp, random.Random(rng.getrandbits(64)), stats)
        thorough = ctx.tier == 'thorough'
        n_xfer = 240 if thorough else 22
        serial = 0

        def reset(**kw):
            state.update({'cut': None, 'fail_at': None, 'wfail_at': None, 'short': False, 'async': False, 'failed': False,
                          'close_fail': None, 'close_failed': 0, 'cap_read': None})
            state.update(kw)

        async def one_transfer(spec):
            """spec: dict(op, size, bs, mx, sparse, short, fault) -> failing description or None"""
            nonlocal serial
            serial += 1
            op, size, bs, mx = spec['op'], spec['size'], spec['bs'], spec['mx']
            content = gen_bytes(rng, size) if spec.get('content') is None else spec['content']
            name = 'f%d' % serial
            src_dir, dst_dir = (srv, loc) if op == 'get' else (loc, srv) if op == 'put' else (srv, srv)
            sp = os.path.join(src_dir, name)
            dp = os.path.join(dst_dir, name + '.out')
            with open(sp, 'wb') as f:
                f.write(content)
            fault = spec.get('fault')
            h = getattr(sftp, '_handler', None)
            forced = op == 'copy' and spec.get('no_remote_copy') and h is not None and hasattr(h, '_supports_copy_data')
            # server-side copy-data reads the file inside the server: short server reads there are a separate
            # observation (probe_copy_data below), not part of the parallel-copy cases
            short = spec['short'] and (op != 'copy' or forced)
            reset(short=short, salt=serial, **{'async': spec.get('async', False)})
            expect_fail = False
            if fault == 'read_fail' and op in ('get',) and size:
                state['fail_at'] = spec['at'] % size
                expect_fail = True
            elif fault == 'write_fail' and op in ('put',) and size:
                state['wfail_at'] = spec['at'] % size
                expect_fail = True
            elif fault == 'early_eof' and op == 'get' and size > 1 and not spec['sparse']:
                state['cut'] = spec['at'] % (size - 1)
                expect_fail = True
            close_fault = spec.get('close_fault')
            if close_fault == 'devfull':
                # local destination whose buffered tail cannot be flushed: the error shows up in close() only
                if op != 'get' or not os.path.exists('/dev/full'):
                    close_fault = None
                else:
                    dp = '/dev/full'
            elif close_fault in ('src', 'dst'):
                if (op == 'get' and close_fault == 'dst') or (op == 'put' and close_fault == 'src'):
                    close_fault = None          # that end is a local file
                else:
                    state['close_fail'] = close_fault
            kw = dict(block_size=bs, max_requests=mx, sparse=spec['sparse'])
            err = None
            try:
                if op == 'get':
                    await sftp.get('/' + name, dp, **kw)
                elif op == 'put':
                    await sftp.put(sp, '/' + name + '.out', **kw)
                else:
                    if forced:
                        h._supports_copy_data = False
                        stats['parallel_copy'] = stats.get('parallel_copy', 0) + 1
                    try:
                        await sftp.copy('/' + name, '/' + name + '.out', **kw)
                    finally:
                        if forced:
                            h._supports_copy_data = True
            except (asyncssh.SFTPError, OSError) as e:
                err = type(e).__name__
            state['close_fail'] = None
            got = open(dp, 'rb').read() if (os.path.isfile(dp) and dp != '/dev/full') else None
            for pth in (sp, dp):
                try:
                    if pth != '/dev/full':
                        os.remove(pth)
                except OSError:
                    pass
            ctx.count('e2e.%s.%s' % (op, 'raised' if err else 'ok'))
            if close_fault:
                if close_fault != 'devfull' and not state.get('close_failed'):
                    return None     # the server was never asked to close that file
                stats['close_faults'] = stats.get('close_faults', 0) + 1
                what = {'src': 'closing the source was answered with an error',
                        'dst': 'closing the destination was answered with an error',
                        'devfull': 'the local destination could not flush its last bytes when it was closed (ENOSPC)'}[close_fault]
                return None if err else f'{what} but {op} returned normally' + (
                    '' if got is None else f' (destination has {len(got)} of {len(content)} bytes)')
            if state.get('shortened'):
                stats['shortened'] = stats.get('shortened', 0) + state.pop('shortened')
            if expect_fail and state['failed'] is False and fault != 'early_eof':
                return None        # the faulty block was never touched
            if expect_fail:
                stats['faults'] = stats.get('faults', 0) + 1
                return None if err else f'{fault} injected but {op} returned normally'
            if err:
                return f'{op} raised {err} although nothing failed'
            if got != content:
                return f'{op} returned normally but the destination ({None if got is None else len(got)} bytes) ' \
                       f'differs from the source ({len(content)} bytes)'
            return None

        specs = []
        if replay is not None:
            specs = [replay]
        else:
            for k in range(n_xfer):
                bs = rng.choice([64, 100, 256, 1000, 4096, 16384])
                mx = rng.choice([1, 2, 3, 8, 16])
                base = rng.choice([0, bs, 2 * bs, bs * mx, bs * (mx + 1), 3 * bs * mx, rng.randint(0, 40000)])
                size = max(0, min(60000, base + rng.choice([-1, 0, 0, 1, 7])))
                op = ['get', 'put', 'copy', 'get', 'copy', 'put'][k % 6]
                fault = rng.choice([None, None, None, 'read_fail', 'write_fail', 'early_eof'])
                # the first rounds carry one fault of each kind on an operation it applies to, so that the
                # fault oracle is exercised whatever the seed (the vacuity guard below must not depend on luck)
                if k < 12 and k % 6 in (0, 1, 3):
                    fault = {0: 'read_fail', 1: 'write_fail', 3: 'early_eof'}[k % 6]
                    size = max(size, 2 * bs + 3)
                specs.append({'op': op, 'size': size, 'bs': bs, 'mx': mx,
                              'sparse': rng.random() < 0.5 and not (k < 12 and k % 6 == 3),
                              'short': rng.random() < 0.75, 'async': rng.random() < 0.3, 'fault': fault,
                              'at': rng.randint(0, 1 << 30), 'no_remote_copy': k % 6 == 2})
            # defaults (block_size / max_requests chosen by the library)
            specs.append({'op': 'get', 'size': 300000, 'bs': -1, 'mx': -1, 'sparse': False, 'short': True, 'fault': None})
            specs.append({'op': 'put', 'size': 200000, 'bs': -1, 'mx': -1, 'sparse': False, 'short': False, 'fault': None})
            # faults at close, with and without an earlier block error (deterministic list, independent of the seed)
            for j, (op, cf, fault, nrc) in enumerate([
                    ('put', 'dst', None, False), ('get', 'src', None, False), ('get', 'devfull', None, False),
                    ('copy', 'dst', None, True), ('copy', 'dst', None, False), ('copy', 'src', None, True),
                    ('put', 'dst', 'write_fail', False), ('get', 'src', 'read_fail', False), ('get', 'devfull', None, False)]):
                specs.append({'op': op, 'size': [3000, 700, 100, 5000, 2000, 900, 4000, 2500, 1][j], 'bs': [256, 100, 64, 1000, 256, 64, 256, 100, 64][j],
                              'mx': [3, 1, 2, 8, 2, 16, 3, 2, 1][j], 'sparse': j % 2 == 1, 'short': j % 3 != 2, 'fault': fault,
                              'at': 1234 + j, 'no_remote_copy': nrc, 'close_fault': cf})
        for spec in specs:
            bad = await one_transfer(spec)
            ctx.note_case(('e2e', spec['op'], spec['size'], spec['bs'], spec['mx'], spec['sparse'], spec['short'],
                           spec.get('fault'), spec.get('close_fault')), nontrivial=spec['size'] > spec['bs'] > 0)
            if bad:
                ctx.failing_input(f'end to end {spec["op"]} of {spec["size"]} bytes (block_size={spec["bs"]}, '
                                  f'max_requests={spec["mx"]}, sparse={spec["sparse"]}, short reads={spec["short"]}): {bad}',
                                  {'kind': 'e2e_transfer', 'spec': {k: v for k, v in spec.items() if k != 'content'}})
        if replay is not None:
            return

        # sparse files on a real file system
        if fs_supports_holes(srv):
            layouts = ['DHHD', 'HDDH', 'DHHH', 'HHHH', 'HDHDHD', 'D', 'DH' * 140, 'HD' * 3 + 'HH']
            # extent counts on both sides of the batching of the ranges protocol (128 ranges per reply)
            big = ['DH' * 257, 'HD' * 385 + 'H']
            if thorough:
                layouts += [''.join(rng.choice('DH') for _ in range(rng.randint(1, 12))) for _ in range(40)]
                big += ['DH' * n for n in (127, 128, 129, 255, 256, 384, 513)]
            h_ = getattr(sftp, '_handler', None)
            can_force = h_ is not None and hasattr(h_, '_supports_copy_data')
            for lay in layouts + big:
                for op in (('get', 'pcopy') if lay in big else ('get', 'put', 'copy', 'pcopy')):
                    if op == 'pcopy' and not can_force:
                        continue
                    serial += 1
                    name = 's%d' % serial
                    src_dir, dst_dir = (srv, loc) if op == 'get' else (loc, srv) if op == 'put' else (srv, srv)
                    sp, dp = os.path.join(src_dir, name), os.path.join(dst_dir, name + '.out')
                    content = write_layout(sp, rng, lay)
                    reset(short=(op != 'copy' and lay not in big), salt=serial)
                    err = None
                    try:
                        if op == 'get':
                            await sftp.get('/' + name, dp, sparse=True, block_size=rng.choice([1000, 4096, 16384]))
                        elif op == 'put':
                            await sftp.put(sp, '/' + name + '.out', sparse=True, block_size=rng.choice([1000, 4096, 16384]))
                        elif op == 'pcopy':
                            # server-to-server copy through the client (no copy-data): ranges come from the server
                            h_._supports_copy_data = False
                            try:
                                await sftp.copy('/' + name, '/' + name + '.out', sparse=True, block_size=16384)
                            finally:
                                h_._supports_copy_data = True
                        else:
                            await sftp.copy('/' + name, '/' + name + '.out', sparse=True)
                    except (asyncssh.SFTPError, OSError) as e:
                        err = type(e).__name__
                    got = open(dp, 'rb').read() if os.path.exists(dp) else None
                    for pth in (sp, dp):
                        try:
                            os.remove(pth)
                        except OSError:
                            pass
                    ctx.count('e2e.sparse.%s' % ('raised' if err else 'ok'))
                    ctx.note_case(('e2e_sparse', op, lay), nontrivial='H' in lay)
                    if err is None and got != content:
                        short_lay = lay if len(lay) <= 16 else lay[:16] + '...(%d blocks)' % len(lay)
                        rp = {'kind': 'e2e_sparse', 'op': op, 'layout': lay, 'block': 4096,
                              'source_len': len(content), 'destination_len': None if got is None else len(got)}
                        if lay.endswith('H') and got is not None and content.startswith(got):
                            rp['class'] = 'sparse_trailing_hole'
                        if got is not None and len(got) == len(content):
                            first = next(i for i in range(len(got)) if got[i] != content[i])
                            how = f'differs from the source from byte {first} (block {first // 4096}) on, sizes are equal'
                        else:
                            how = f'has {None if got is None else len(got)} bytes, the source {len(content)}'
                        report(ctx, 'e2e', f'sparse {op} of a file with 4096-byte blocks {short_lay} (D=data, H=hole) returned '
                               f'normally but the destination {how}', rp)
            stats['sparse'] = 'run'
        else:
            stats['sparse'] = 'file system without SEEK_HOLE support: skipped'

        # observation: server-side copy-data with a server whose read() returns short
        h = getattr(sftp, '_handler', None)
        if getattr(sftp, 'supports_remote_copy', False):
            serial += 1
            name = 'c%d' % serial
            content = gen_bytes(rng, 5000)
            with open(os.path.join(srv, name), 'wb') as f:
                f.write(content)
            reset(short=True, salt=serial)
            err = None
            try:
                await sftp.copy('/' + name, '/' + name + '.out', sparse=False)
            except (asyncssh.SFTPError, OSError) as e:
                err = type(e).__name__
            outp = os.path.join(srv, name + '.out')
            got = open(outp, 'rb').read() if os.path.exists(outp) else None
            for pth in (os.path.join(srv, name), outp):
                try:
                    os.remove(pth)
                except OSError:
                    pass
            ok = err is not None or got == content
            stats['copy_data_short_server_read'] = 'exact or raised' if ok else \
                'returned normally with %s of %d bytes' % (None if got is None else len(got), len(content))
            if not ok and COPY_DATA_SHORT_READ_IS_VIOLATION:
                ctx.failing_input('copy through the server-side copy-data request with a server whose read() returns '
                                  'short: returned normally, destination has %s of %d bytes'
                                  % (None if got is None else len(got), len(content)),
                                  {'kind': 'e2e_copy_data', 'class': 'copy_data_short_read'})

        # file objects over the wire: read / write / seek against a reference
        reset(short=True, salt=7)
        n_fo = 120 if thorough else 10
        for k in range(n_fo):
            serial += 1
            name = 'o%d' % serial
            E = rng.choice([0, 1, 100, 1000, 5000, 20000])
            if k % 2 == 0:
                E = rng.choice([2500, 5000, 20000])
            F0 = gen_bytes(rng, E)
            with open(os.path.join(srv, name), 'wb') as f:
                f.write(F0)
            app = rng.random() < 0.3
            bs = rng.choice([0, 64, 256, 1000, -1])
            lim = getattr(sftp, 'limits', None)
            capmode = k % 2 == 0 and lim is not None and hasattr(lim, 'max_read_len')
            if capmode:
                # the server advertises max_read_len = 1000 and answers with at most that; block_size below / at / above
                old_lim = lim.max_read_len
                lim.max_read_len = 1000
                reset(short=False, salt=7, cap_read=1000)
                bs = [500, 1000, 4000, 1001][(k // 2) % 4]
                stats['limit_honouring_fileobj'] = stats.get('limit_honouring_fileobj', 0) + 1
            ops = []
            for _ in range(rng.randint(2, 8)):
                r = rng.random()
                if r < 0.45:
                    ops.append(('read', rng.choice([-1, 999, 1000, 1001, 3000, 4000, 4001] if capmode else [-1, 0, 1, 63, 64, 65, 300, 5000]), None if rng.random() < 0.6 else rng.randint(0, E + 10)))
                elif r < 0.7:
                    ops.append(('write', gen_bytes(rng, rng.choice([0, 1, 64, 65, 700, 3000])), None if rng.random() < 0.6 else rng.randint(0, E + 100)))
                elif r < 0.9:
                    wh = rng.choice([0, 1, 2])
                    ops.append(('seek', rng.randint(0, E + 50) if wh == 0 else rng.randint(0, 100) if wh == 1 else -rng.randint(0, min(E, 100)), wh))
                else:
                    ops.append(('tell',))
            got = []
            async with sftp.open('/' + name, 'ab+' if app else 'rb+', block_size=bs, max_requests=rng.choice([-1, 1, 3])) as f:
                for op in ops:
                    try:
                        if op[0] == 'read':
                            got.append(('bytes', await f.read(op[1], op[2])))
                        elif op[0] == 'write':
                            got.append(('int', await f.write(op[1], op[2])))
                        elif op[0] == 'seek':
                            got.append(('int', await f.seek(op[1], op[2])))
                        else:
                            got.append(('int', await f.tell()))
                    except (OverflowError, ValueError):
                        got.append(('exc',))
            Fend = open(os.path.join(srv, name), 'rb').read()
            os.remove(os.path.join(srv, name))
            ctx.note_case(('e2e_fileobj', app, bs, E, len(ops)), nontrivial=True)
            ctx.count('e2e.fileobj')
            bad = fileobj_oracle(app, F0, ops, got, Fend, capmode)
            if capmode:
                lim.max_read_len = old_lim
                reset(short=True, salt=7)
            if bad:
                ctx.failing_input(f'remote file object (append={app}, block_size={bs}'
                                  + (', server max_read_len 1000 and replies capped at 1000' if capmode else '')
                                  + f') on a {E}-byte file, operations '
                                  f'{[(o[0],) + tuple(len(x) if isinstance(x, bytes) else x for x in o[1:]) for o in ops]!r}: {bad}',
                                  {'kind': 'e2e_fileobj', 'app': app, 'bs': bs, 'E': E,
                                   'ops': [[o[0]] + [x.hex() if isinstance(x, bytes) else x for x in o[1:]] for o in ops]})
    finally:
        conn.close()
        listener.close()
        await listener.wait_closed()
    seq = stats.get('jitter')
    if isinstance(seq, dict):
        d = seq['done']
        stats['jitter'] = {'requests': seq['n'], 'completed_out_of_order': sum(1 for a, b in zip(d, d[1:]) if b < a)}
    ctx.cov['oracle']['e2e'] = stats
    if replay is None:
        if not stats.get('shortened'):
            ctx.broke('vacuity:e2e-short-reads', 'the server never shortened a read')
        if not stats.get('faults'):
            ctx.broke('vacuity:e2e-faults', 'no injected fault was reached')
        if stats.get('close_faults', 0) < 4:
            ctx.broke('vacuity:e2e-close-faults', 'fewer than 4 faults at close were reached')
        if not stats.get('parallel_copy'):
            stats['parallel_copy'] = 'unavailable (private attribute missing): remote copies used copy-data only'


# ---------------------------------------------------------------------------------------------
# stage 5: the recursive copy driver (SFTPClient._copy / _begin_copy) over loopback, built-in server

TREE_BS = 4096


def build_tree(root, rng):
    os.makedirs(os.path.join(root, 'sub', 'deep'))
    os.makedirs(os.path.join(root, 'sub', 'emptydir'))
    files = {'empty': 0, 'small': 10, 'blk_m1': TREE_BS - 1, 'blk': TREE_BS, 'blk_p1': TREE_BS + 1, 'two_blk': 2 * TREE_BS,
             'big': 70000, 'sub/empty2': 0, 'sub/deep/f1': 3 * TREE_BS + 5, 'sub/mid': 5000}
    for name, n in files.items():
        with open(os.path.join(root, name), 'wb') as f:
            f.write(gen_bytes(rng, n))
    os.symlink('big', os.path.join(root, 'link_big'))
    os.symlink('sub', os.path.join(root, 'link_dir'))
    os.symlink('../small', os.path.join(root, 'sub', 'link_up'))
    os.symlink('deep/f1', os.path.join(root, 'sub', 'link_f1'))


def tree_snapshot(path, follow):
    """rel path -> ('d',) | ('f', bytes) | ('l', target); symlinks resolved to what they point at when follow"""
    out = {}

    def rec(p, rel):
        for name in sorted(os.listdir(p)):
            q, r = os.path.join(p, name), (rel + '/' + name if rel else name)
            if os.path.islink(q) and not follow:
                out[r] = ('l', os.readlink(q))
            elif os.path.isdir(q):
                out[r] = ('d',)
                rec(q, r)
            else:
                with open(q, 'rb') as f:
                    out[r] = ('f', f.read())
    rec(path, '')
    return out


def tree_diff(exp, got):
    for k in sorted(set(exp) | set(got)):
        a, b = exp.get(k), got.get(k)
        if a != b:
            def d(x):
                return 'missing' if x is None else ('file of %d bytes' % len(x[1]) if x[0] == 'f' else
                                                      'directory' if x[0] == 'd' else 'symlink to %r' % x[1])
            return '%s: source has %s, destination has %s' % (k, d(a), d(b))
    return None


def walk_entries(root, follow):
    """every entry the recursive driver visits below root: (path, lstat, stat)"""
    out = []

    def rec(p):
        lst, st = os.lstat(p), os.stat(p)
        out.append((p, lst, st))
        import stat as S
        eff = st if (follow and S.S_ISLNK(lst.st_mode)) else lst
        if S.S_ISDIR(eff.st_mode):
            for name in sorted(os.listdir(p)):
                rec(os.path.join(p, name))
    rec(root)
    return out


def ftype(st):
    import stat as S
    return 3 if S.S_ISLNK(st.st_mode) else 2 if S.S_ISDIR(st.st_mode) else 1


async def e2e_tree(ctx, tmp, only=None):
    import asyncssh
    from asyncssh import sftp as sftp_mod
    rng = random.Random(ctx.rng.getrandbits(64))
    src = os.path.join(tmp, 'tree')
    os.makedirs(src)
    build_tree(src, rng)
    listener, conn = await sshutil.loopback(srv_kw={'sftp_factory': True})
    rec = {}
    orig = getattr(sftp_mod, '_SFTPFileCopier', None)
    if orig is not None:
        class Recording(orig):
            def __init__(self, *a, **k):
                try:
                    rec[bytes(a[6])] = int(a[2])
                except Exception:      # signature changed: recording unavailable, the tree oracle still runs
                    rec['unavailable'] = True
                super().__init__(*a, **k)
        sftp_mod._SFTPFileCopier = Recording
    ok = raised = 0
    cases = []
    try:
        sftp = await conn.start_sftp_client()
        ops = ['get', 'put', 'copy', 'mget', 'mput', 'mcopy']
        combos = [(op, fo, pr, sp) for op in ops for fo in (False, True) for pr in (False, True) for sp in (False, True)]
        if only is not None:
            combos = [tuple(only)]
        elif ctx.tier != 'thorough':
            # quick: every (op, follow_symlinks) pair, preserve/sparse alternating
            combos = [c for k, c in enumerate(combos) if (c[2], c[3]) in (((False, True), (True, False)) if (k // 4) % 2 else
                                                                           ((False, False), (True, True)))]
        for k, (op, follow, preserve, sparse) in enumerate(combos):
            dst = os.path.join(tmp, 'out%d' % k)
            kw = dict(preserve=preserve, recurse=True, follow_symlinks=follow, sparse=sparse, block_size=TREE_BS,
                      max_requests=rng.choice([1, 3, 16]))
            rec.clear()
            err = None
            glob = op.startswith('m')
            try:
                if glob:
                    os.makedirs(dst)
                    pats = [src + '/*'] if k % 2 == 0 else [src + '/[a-r]*', src + '/s*', src + '/t*']
                    await getattr(sftp, op)(pats, dst, **kw)
                else:
                    await getattr(sftp, op)(src, dst, **kw)
            except (asyncssh.SFTPError, OSError) as e:
                err = type(e).__name__
            ctx.count('e2e.tree.%s.%s' % (op, 'raised' if err else 'ok'))
            ctx.note_case(('tree', op, follow, preserve, sparse), nontrivial=True)
            spec = {'op': op, 'follow_symlinks': follow, 'preserve': preserve, 'sparse': sparse}
            if err:
                raised += 1
            else:
                ok += 1
                bad = tree_diff(tree_snapshot(src, follow), tree_snapshot(dst, False))
                if bad:
                    ctx.failing_input(f'{op} of a directory tree (recurse=True, follow_symlinks={follow}, preserve={preserve}, '
                                      f'sparse={sparse}, block_size={TREE_BS}) returned normally but {bad}',
                                      {'kind': 'e2e_tree', 'spec': [op, follow, preserve, sparse]})
                # what total_bytes did each file copier get?
                if orig is not None and 'unavailable' not in rec:
                    for path, lst, st in walk_entries(src, follow):
                        if glob and path == src:
                            continue
                        got = rec.get(path.encode())
                        cases.append('(%s, (%d, %d), (%d, %d), %s)' % (cbool(follow), ftype(lst), lst.st_size, ftype(st), st.st_size,
                                                                        core.copt(got, cz)))
            shutil.rmtree(dst, ignore_errors=True)
    finally:
        if orig is not None:
            sftp_mod._SFTPFileCopier = orig
        conn.close()
        listener.close()
        await listener.wait_closed()
    ctx.cov['oracle']['e2e_tree'] = {'runs_ok': ok, 'runs_raised': raised,
                                     'total_bytes_cases': len(cases) if orig is not None else 'unavailable'}
    if only is None:
        ctx.sample({'e2e_tree': {'ops': 'get/put/copy -r, mget/mput/mcopy with glob patterns', 'tree': sorted(tree_snapshot(src, False))}})
        if ok < max(4, len(combos) // 2):
            ctx.broke('vacuity:e2e-tree', f'only {ok} of {len(combos)} recursive transfers returned normally')
    return cases


def stage_tree(ctx, only=None):
    tmp = os.path.realpath(tempfile.mkdtemp(prefix='c12t-', dir='/var/tmp'))
    try:
        cases = sshutil.run(e2e_tree(ctx, tmp, only))
    finally:
        shutil.rmtree(tmp, ignore_errors=True)
    if only is None and cases:
        bad = ctx.coq_cases('copy_total', IMPORTS, 'chk_copy_total', cases, ty='bool * (Z * Z) * (Z * Z) * option Z')
        if bad:
            ctx.broke('correspondence:copy_total', f'{len(bad)} of {len(cases)} differ; first: {cases[bad[0]]}')


# ---------------------------------------------------------------------------------------------
# stage 6: every negotiable SFTP version, destinations that already exist

PRE_KINDS = ['absent', 'shorter', 'equal', 'longer', 'readonly', 'dir', 'symlink']
VER_OPS = ['put', 'copy', 'pcopy', 'get', 'open_wb']


async def e2e_versions(ctx, tmp, only=None):
    import asyncssh
    rng = random.Random(ctx.rng.getrandbits(64))
    state = {'salt': 3}
    cls = make_server_class(state)
    summary = {}
    versions = [3, 4, 5, 6] if only is None else [only['version']]
    for v in versions:
        srv = os.path.join(tmp, 'srv%d' % v)
        loc = os.path.join(tmp, 'loc%d' % v)
        os.makedirs(srv)
        os.makedirs(loc)
        listener, conn = await sshutil.loopback(srv_kw={'sftp_factory': (lambda chan, srv=srv: cls(chan, chroot=srv.encode())),
                                                        'sftp_version': v})
        try:
            sftp = await conn.start_sftp_client(sftp_version=v)
            summary['v%d' % v] = {'negotiated': getattr(sftp, 'version', None), 'ok': 0, 'raised': 0}
            h = getattr(sftp, '_handler', None)
            can_force = h is not None and hasattr(h, '_supports_copy_data')
            combos = [(op, pre) for op in VER_OPS for pre in PRE_KINDS]
            if only is not None:
                combos = [(only['op'], only['pre'])]
            serial = 0
            for op, pre in combos:
                if op == 'pcopy' and not can_force:
                    continue
                serial += 1
                size = rng.choice([0, 1, 999, 1000, 1001, 3000])
                if only is not None:
                    size = only['size']
                content = gen_bytes(rng, size)
                name = 'f%d' % serial
                src_dir, dst_dir = (srv, loc) if op == 'get' else (loc, srv) if op in ('put', 'open_wb') else (srv, srv)
                sp, dp = os.path.join(src_dir, name), os.path.join(dst_dir, name + '.dst')
                with open(sp, 'wb') as f:
                    f.write(content)
                old = {'shorter': max(0, size - 7), 'equal': size, 'longer': size + 1500, 'readonly': size + 1500,
                       'symlink': size + 1500}.get(pre)
                final = dp           # where the bytes must be afterwards
                if pre == 'dir':
                    os.makedirs(dp)
                    final = os.path.join(dp, name)
                elif pre == 'symlink':
                    with open(dp + '.target', 'wb') as f:
                        f.write(gen_bytes(rng, old))
                    os.symlink(os.path.basename(dp) + '.target', dp)
                elif old is not None:
                    with open(dp, 'wb') as f:
                        f.write(gen_bytes(rng, old))
                    if pre == 'readonly':
                        os.chmod(dp, 0o444)
                state.update({'cut': None, 'fail_at': None, 'wfail_at': None, 'short': op == 'get', 'async': False,
                              'failed': False, 'close_fail': None, 'close_failed': 0, 'salt': serial})
                err = None
                rdst = '/' + name + '.dst'
                try:
                    if op == 'put':
                        await sftp.put(sp, rdst, block_size=1000, sparse=bool(serial % 2))
                    elif op == 'get':
                        await sftp.get('/' + name, dp, block_size=1000, sparse=bool(serial % 2))
                    elif op == 'copy':
                        await sftp.copy('/' + name, rdst, block_size=1000, sparse=bool(serial % 2))
                    elif op == 'pcopy':
                        h._supports_copy_data = False
                        try:
                            await sftp.copy('/' + name, rdst, block_size=1000, sparse=bool(serial % 2))
                        finally:
                            h._supports_copy_data = True
                    else:
                        async with sftp.open(rdst, 'wb', block_size=1000) as f:
                            await f.write(content)
                except (asyncssh.SFTPError, OSError) as e:
                    err = type(e).__name__
                got = None
                try:
                    if os.path.isfile(final):
                        with open(final, 'rb') as f:
                            got = f.read()
                except OSError:
                    pass
                summary['v%d' % v]['raised' if err else 'ok'] += 1
                ctx.count('e2e.versions.%s' % ('raised' if err else 'ok'))
                ctx.note_case(('versions', v, op, pre, size), nontrivial=pre != 'absent')
                if err is None and got != content:
                    if got is not None and got[:len(content)] == content:
                        how = f'the source bytes followed by {len(got) - len(content)} stale bytes'
                    else:
                        how = f'{None if got is None else len(got)} bytes differing from the source'
                    ctx.failing_input(f'SFTP version {v}: {op} of {size} bytes onto a destination that already existed ({pre}'
                                      + (f', {old} bytes' if old is not None else '') + f') returned normally but it holds {how}',
                                      {'kind': 'e2e_versions', 'spec': {'version': v, 'op': op, 'pre': pre, 'size': size}})
                for pth in (sp, dp, dp + '.target'):
                    try:
                        if os.path.isdir(pth) and not os.path.islink(pth):
                            shutil.rmtree(pth)
                        else:
                            os.remove(pth)
                    except OSError:
                        pass
        finally:
            conn.close()
            listener.close()
            await listener.wait_closed()
    if only is None:
        ctx.cov['oracle']['e2e_versions'] = summary
        for v in versions:
            sv = summary['v%d' % v]
            if sv['negotiated'] != v:
                ctx.broke('vacuity:e2e-versions', f'SFTP version {v} was asked for, {sv["negotiated"]} negotiated')
            if sv['ok'] < 15:
                ctx.broke('vacuity:e2e-versions', f'only {sv["ok"]} transfers returned normally with SFTP version {v}')


def stage_versions(ctx, only=None):
    tmp = os.path.realpath(tempfile.mkdtemp(prefix='c12v-', dir='/var/tmp'))
    try:
        sshutil.run(e2e_versions(ctx, tmp, only))
    finally:
        shutil.rmtree(tmp, ignore_errors=True)


def stage_e2e(ctx, replay=None):
    tmp = os.path.realpath(tempfile.mkdtemp(prefix='c12e-', dir='/var/tmp'))
    try:
        sshutil.run(e2e(ctx, tmp, replay))
    finally:
        shutil.rmtree(tmp, ignore_errors=True)


# ---------------------------------------------------------------------------------------------

def run(ctx):
    ctx.cov['rule'] = (
        'seeded cases: (block_size, max_requests) from small values, file/transfer sizes at 0, +-1 and multiples of '
        'block_size and block_size*max_requests, start offsets before/at/after EOF; per case an on-line schedule picks the '
        'outstanding request to complete (fifo/lifo/random) with a full, 1-byte, half or random short count, EOF at/after '
        'the end, an injected block error (SFTPFailure/OSError, read or write side) or a malformed reply (zero-length, '
        'over-long, premature EOF, wrong bytes); in the copier every 8 cases one failing close of the destination, of the '
        'source, and of both (after a clean copy and after a block error); sparse layouts of up to 4 data extents with leading/middle/trailing holes; '
        'file-object operation sequences (read/write/seek/tell, append or not); plus every schedule (all completion orders x '
        'all short counts) of a few small read/copy configurations (coverage.exhaustive says which were enumerated '
        'completely); end to end: get/put/copy/file objects over loopback against an SFTPServer subclass that shortens '
        'reads, fails a chosen block, ends the file early or answers the close of the source / destination with an error '
        '(plus a local destination that cannot flush on close, /dev/full), with client-side reply jitter, and real sparse files; the '
        'recursive driver: get/put/copy -r and mget/mput/mcopy with glob patterns of a tree with nested and empty '
        'directories, empty files, files at block boundaries, symlinks to a large file, to a directory and upwards, for '
        'follow_symlinks x preserve x sparse, destination tree compared byte for byte (links as links unless followed), and '
        'the total_bytes each file copier was given compared with the model (copy_total); the ranges request/reply loop with the '
        'real server handler (128 ranges per reply) for 0, 1, 2, 127, 128, 129, 255, 256, 257, 384, 385, 513 data extents from '
        'offset 0, from every continuation point and from arbitrary offsets, and real sparse files with 257 and 385 extents '
        '(get and server-to-server copy without copy-data); SFTPServer.open for all 64 pflags and open56 for every '
        'disposition x access on an absent, empty and non-empty file; get/put/copy/copy without copy-data/open(wb)+write for '
        'every SFTP version 3..6 onto destinations that are absent, shorter, equal, longer, read-only, a directory, a symlink. A case '
        'is non-trivial when its schedule has >= 2 completions (>= 3 operations for file objects); distinct = distinct '
        '(geometry, schedule shape) tuples')
    ctx.cov['trusted_base'] += [
        'asyncio is modelled as run-to-suspension with adversarial completion batches (Model/SftpIO.v); the harness '
        'completes one future per step and lets the loop settle (16 turns), which the correspondence check validates',
        'the SFTP wire encoding of READ/WRITE/ranges requests, SFTPClientHandler, SFTPServerHandler and the server-side '
        'copy-data branch of _SFTPFileCopier are not modelled; they are exercised by the end-to-end oracle only',
        'the server is modelled as a fixed file (reads) / an ideal file (writes); a source that changes during the '
        'transfer is outside the theorems',
        'lseek SEEK_DATA/SEEK_HOLE semantics are modelled over a sorted extent list (req_ranges) and tied by '
        'correspondence against a fake file object implementing POSIX seek; real holes only in the end-to-end stage',
        'zero-length non-EOF replies and replies longer than requested are outside the theorems (hypothesis 1<=c<=size); '
        'the model is still compared with the code on them',
        'SFTPClient._copy/_begin_copy/SFTPGlob are modelled only in how total_bytes is chosen (copy_total, theorem '
        'C12_copy_total); directory walking, globbing and attribute preservation are covered by the tree oracle only; the '
        'total_bytes observation wraps the private class _SFTPFileCopier and is marked unavailable if that is gone',
        'os.open semantics for regular files are modelled as posix_open (O_EXCL only with O_CREAT; O_TRUNC empties); the '
        'disposition tables are tied by calling the real SFTPServer.open/open56 on real files; the ranges handler is '
        'driven through the private SFTPServerHandler._process_ranges (marked unavailable if that is gone)',
        'termination (every honest schedule ends after at most size completions) is observed (no case may get stuck) '
        'but not proved',
        'the copier correspondence accepts either the snapshot model or the repaired-sparse-copy model (c_fix) and '
        'records which one the code matches in coverage.oracle.copier_variant',
    ]
    ctx.prove()
    th = ctx.tier == 'thorough'
    stage_reader(ctx, 9000 if th else 320)
    stage_writer(ctx, 3000 if th else 140)
    stage_copier(ctx, 9000 if th else 320)
    stage_exhaustive(ctx, 6000 if th else 120)
    stage_ranges(ctx, 3000 if th else 150)
    stage_server_ranges(ctx)
    stage_open(ctx)
    stage_fileobj(ctx, 6000 if th else 220)
    stage_e2e(ctx)
    stage_tree(ctx)
    stage_versions(ctx)


def replay(rp):
    core.setup_paths()
    kind = rp.get('kind')
    if kind == 'reader':
        F = bytes.fromhex(rp['F'])
        steps = [step_from_json(s) for s in rp['steps']]
        io, st, res, stuck = run_reader_case(rp['p'], Recorded(steps))
        bad = reader_oracle(rp['p'], F, st, res, stuck)
    elif kind == 'writer':
        data, dst0 = bytes.fromhex(rp['data']), bytes.fromhex(rp['dst0'])
        steps = [step_from_json(s) for s in rp['steps']]
        io, st, res, stuck = run_writer_case(rp['p'], data, dst0, Recorded(steps))
        bad = writer_oracle(rp['p'], data, dst0, io, st, res, stuck)
    elif kind == 'copier':
        F = bytes.fromhex(rp['F'])
        steps = [step_from_json(s) for s in rp['steps']]
        ranges = [tuple(r) for r in rp['ranges']]
        io, st, res, stuck = run_copier_case(rp['p'], ranges, Recorded(steps))
        bad = copier_oracle(rp['p'], F, io, st, res, stuck)
    elif kind == 'fileobj':
        ops = [tuple([o[0]] + [bytes.fromhex(x) if (o[0] == 'write' and i == 0) else x for i, x in enumerate(o[1:])]) for o in rp['ops']]
        F0 = bytes.fromhex(rp['F0'])
        got, Fend = sshutil.run(run_fileobj(rp['app'], rp['bs'], 2, rp['maxr'], rp['cap'], F0, ops))
        bad = fileobj_oracle(rp['app'], F0, ops, got, Fend, rp['bs'] > 0 and rp['cap'] >= rp['maxr'])
    elif kind in ('ranges', 'client_ranges'):
        ext = [tuple(e) for e in rp['extents']]
        if kind == 'ranges':
            got = sshutil.run(D.real_request_ranges(ext, rp['size'], 0, rp['size']))
            bad = None if data_positions(got) == data_positions([(a, b - a) for a, b in ext]) and all(l > 0 for _, l in got) \
                else f'ranges {got}'
        else:
            got, _ = sshutil.run(real_client_ranges(ext, rp['size'], rp['K']))
            full = sshutil.run(D.real_request_ranges(ext, rp['size'], 0, rp['size']))
            bad = None if got == full else f'{got} vs {full}'
    elif kind == 'server_ranges':
        from asyncssh import sftp
        ext = [tuple(e) for e in rp['extents']]
        call = real_server_handler()
        f = sftp.SFTPClientFile(ServerRangesHandler(call, ext, rp['size']), b'h', False, None, 'strict', 0, 1)

        async def collect():
            return [(int(a), int(b)) async for a, b in f.request_ranges(rp['off'], rp['size'] - rp['off'])]
        got = sshutil.run(collect())
        want = sshutil.run(D.real_request_ranges(ext, rp['size'], rp['off'], rp['size'] - rp['off']))
        bad = None if got == want else f'{len(got)} ranges returned, the file has {len(want)}'
    elif kind == 'open_disposition':
        import asyncssh
        tmp = tempfile.mkdtemp(prefix='c12o-', dir='/var/tmp')
        try:
            path = os.path.join(tmp, 'f').encode()
            with open(path, 'wb') as f:
                f.write(b'stale tail')
            srv = asyncssh.SFTPServer(_StubChan())
            fo = srv.open(path, rp['pflags'], asyncssh.SFTPAttrs()) if rp['api'] == 'open' else \
                srv.open56(path, rp['access'], rp['flags'], asyncssh.SFTPAttrs())
            fo.close()
            got = open(path, 'rb').read()
            bad = None if got == b'' else f'file opened for "wb" still holds {got!r}'
        finally:
            shutil.rmtree(tmp, ignore_errors=True)
    elif kind in ('e2e_sparse', 'e2e_transfer', 'e2e_fileobj', 'e2e_tree', 'e2e_versions'):
        bad = replay_e2e(rp)
    else:
        print('unknown replay kind', kind)
        return 2
    print('replay', kind, '->', bad or 'property holds on this input')
    return 1 if bad else 0


def replay_e2e(rp):
    """Re-run one end-to-end case. Returns a description if it still fails."""
    import random
    out = {}

    class MiniCtx:
        tier = 'quick'
        rng = random.Random('replay')
        cov = {'oracle': {}}

        def count(self, *a, **k):
            pass

        def note_case(self, *a, **k):
            pass

        def broke(self, *a, **k):
            pass

        def failing_input(self, what, replay):
            out['bad'] = what
            return True
    ctx = MiniCtx()
    if rp['kind'] == 'e2e_transfer':
        stage_e2e(ctx, replay=rp['spec'])
        return out.get('bad')
    if rp['kind'] == 'e2e_sparse':
        return sshutil.run(replay_sparse(rp))
    if rp['kind'] == 'e2e_versions':
        stage_versions(ctx, only=rp['spec'])
        return out.get('bad')
    if rp['kind'] == 'e2e_tree':
        stage_tree(ctx, only=rp['spec'])
        return out.get('bad')
    print('replay of kind', rp['kind'], 'needs the full stage; run ./check C12')
    return None


async def replay_sparse(rp):
    import asyncssh
    import random
    tmp = os.path.realpath(tempfile.mkdtemp(prefix='c12r-', dir='/var/tmp'))
    try:
        srv, loc = os.path.join(tmp, 'srv'), os.path.join(tmp, 'loc')
        os.makedirs(srv)
        os.makedirs(loc)
        if not fs_supports_holes(srv):
            print('file system without holes: cannot replay')
            return None
        listener, conn = await sshutil.loopback(srv_kw={'sftp_factory': lambda chan: asyncssh.SFTPServer(chan, chroot=srv.encode())})
        try:
            sftp = await conn.start_sftp_client()
            op = rp['op']
            src_dir, dst_dir = (srv, loc) if op == 'get' else (loc, srv) if op == 'put' else (srv, srv)
            sp, dp = os.path.join(src_dir, 'f'), os.path.join(dst_dir, 'f.out')
            content = write_layout(sp, random.Random(1), rp['layout'], rp.get('block', 4096))
            if op == 'get':
                await sftp.get('/f', dp, sparse=True)
            elif op == 'put':
                await sftp.put(sp, '/f.out', sparse=True)
            elif op == 'pcopy':
                h = getattr(sftp, '_handler', None)
                if h is not None and hasattr(h, '_supports_copy_data'):
                    h._supports_copy_data = False
                await sftp.copy('/f', '/f.out', sparse=True, block_size=16384)
            else:
                await sftp.copy('/f', '/f.out', sparse=True)
            got = open(dp, 'rb').read()
            return None if got == content else f'destination ({len(got)} bytes) differs from the source ({len(content)} bytes)'
        finally:
            conn.close()
            listener.close()
            await listener.wait_closed()
    finally:
        shutil.rmtree(tmp, ignore_errors=True)
