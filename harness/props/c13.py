"""C13 - File serving and downloading never leave their directory."""
import asyncio
import os
import posixpath
import shutil
import sys
import tempfile

from .. import core, sshutil
from ..core import zl, copt, cbool, clist

IMPORTS = 'From AV Require Import Base.Prelude Model.Paths Corr.C13Corr.'

COMPS = [b'', b'.', b'..', b'a', b'b', b'...', b'a.', b'..a', b'.a', b'etc', b' ', b'\\', b'..\\', b'x\x00', b'\xff']
SEPS = [b'/', b'/', b'/', b'//', b'///']


def gen_path(rng, maxc=6):
    n = rng.randint(0, maxc)
    out = rng.choice([b'', b'', b'/', b'//', b'///', b'////'])
    for i in range(n):
        out += rng.choice(COMPS)
        if i < n - 1 or rng.random() < 0.3:
            out += rng.choice(SEPS)
    return out


def all_paths(alpha, maxc):
    """every path made of up to maxc components from alpha, with 0..3 leading slashes"""
    out = []

    def rec(prefix, k):
        out.append(prefix)
        if k == 0:
            return
        for c in alpha:
            rec(prefix + [c], k - 1)
    rec([], maxc)
    res = []
    for comps in out:
        body = b'/'.join(comps)
        for lead in (b'', b'/', b'//', b'///'):
            res.append(lead + body)
    return res


# --------------------------------------------------------------------------------------------
# direct oracle helpers

def lex_inside(root, p):
    """Lexical containment: p is root or below it with no '..', '.', or empty component after the root."""
    if p == root:
        return True
    r = root if root.endswith(b'/') else root + b'/'
    if not p.startswith(r):
        return False
    rest = p[len(r):]
    if rest == b'':
        return True
    return all(c not in (b'', b'.', b'..') for c in rest.split(b'/'))


class StubChan:
    def get_connection(self):
        return None


def make_server(root):
    import asyncssh
    srv = asyncssh.SFTPServer(StubChan(), chroot=root)
    return srv


# --------------------------------------------------------------------------------------------

def stage_map_path(ctx):
    """map_path / reverse_map_path / normpath / join: model vs implementation, plus the direct
    lexical-containment oracle on the implementation's own answer."""
    rng = ctx.rng
    tmp = os.path.realpath(tempfile.mkdtemp(prefix='c13-'))
    try:
        roots = []
        for name in ('r', 'srv/data', 'x.y'):
            d = os.path.join(tmp, name)
            os.makedirs(d)
            roots.append(d.encode())
        servers = {r: make_server(r) for r in roots}
        servers[b'/'] = make_server(b'/')
        roots.append(b'/')
        paths = []
        if ctx.tier == 'thorough':
            paths += all_paths([b'', b'.', b'..', b'a', b'..a'], 5)
        else:
            paths += all_paths([b'', b'.', b'..', b'a'], 3)
        n_rand = 6000 if ctx.tier == 'thorough' else 1200
        paths += [gen_path(rng) for _ in range(n_rand)]
        # absolute forms aimed at real files outside the root
        paths += [b'//etc/hostname', b'/../etc/hostname', b'//' + tmp.encode()[1:] + b'/outside',
                  b'/./../..//etc//hostname', b'///etc/hostname', b'////etc/hostname']
        cases_mp, cases_rev, cases_np = [], [], []
        seen = set()
        for i, p in enumerate(paths):
            root = roots[i % len(roots)]
            if (root, p) in seen:
                continue
            seen.add((root, p))
            srv = servers[root]
            got = srv.map_path(p)
            ctx.note_case(('map', root == b'/', p), nontrivial=(b'..' in p or p.startswith(b'//')))
            ctx.count('map_path.lead%d' % min(3, len(p) - len(p.lstrip(b'/'))))
            if b'..' in p.split(b'/'):
                ctx.count('map_path.has_dotdot')
            cases_mp.append('(%s, %s, %s)' % (zl(root), zl(p), zl(got)))
            if not lex_inside(root, got):
                ctx.failing_input(
                    f'SFTPServer(chroot={root!r}).map_path({p!r}) = {got!r} is outside the root',
                    {'kind': 'map_path', 'root': root.decode('latin-1'), 'path': p.decode('latin-1'),
                     'mapped': got.decode('latin-1')})
            # reverse mapping of the mapped path and of arbitrary local paths
            for local in (got, p, root, root + b'x', root + b'/' + p):
                try:
                    rv = srv.reverse_map_path(local)
                except Exception as e:
                    rv = None if type(e).__name__ == 'SFTPNoSuchFile' else b'!' + type(e).__name__.encode()
                cases_rev.append('(%s, %s, %s)' % (zl(root), zl(local), copt(rv, zl)))
                ctx.cov['evaluations'] += 1
            if b'\x00' not in p:
                cases_np.append('(%s, %s)' % (zl(p), zl(posixpath.normpath(p))))
        ctx.sample({'map_path': {'root': roots[0].decode(), 'path': repr(paths[len(paths) // 2]),
                                 'mapped': repr(servers[roots[0]].map_path(paths[len(paths) // 2]))}})
        bad = ctx.coq_cases('map_path', IMPORTS, 'chk_map_path', cases_mp)
        if bad:
            ctx.broke('correspondence:map_path', f'{len(bad)} of {len(cases_mp)} cases differ; first: {cases_mp[bad[0]]}')
        bad = ctx.coq_cases('reverse_map_path', IMPORTS, 'chk_reverse', cases_rev, ty='bytes * bytes * option bytes')
        if bad:
            ctx.broke('correspondence:reverse_map_path', f'{len(bad)} differ; first: {cases_rev[bad[0]]}')
        bad = ctx.coq_cases('normpath', IMPORTS, 'chk_normpath', cases_np)
        if bad:
            ctx.broke('correspondence:normpath', f'{len(bad)} differ; first: {cases_np[bad[0]]}')
    finally:
        shutil.rmtree(tmp, ignore_errors=True)


# --------------------------------------------------------------------------------------------
# SCP: name filter and sink

SCP_NAMES = [b'..', b'.', b'a', b'b', b'f', b'a/b', b'/abs', b'../x', b'a\\b', b'..\\', b'..\r', b'..\n'[:2] + b' ',
             b'.. ', b'\t..', b'...', b'a b', b'a  b ', b'..\x0b', b'x\r', b'\\', b'/', b'..\t', b'..\x0c', b'-', b'~']


def real_parse_cd(args):
    scp = sys.modules.get('asyncssh.scp') or __import__('importlib').import_module('asyncssh.scp')
    try:
        perm, size, name = scp._parse_cd_args(args)
        return name
    except Exception as e:
        if type(e).__name__ in ('SFTPBadMessage', 'SFTPError', 'SFTPFailure'):
            return None
        raise


def stage_scp_names(ctx):
    rng = ctx.rng
    cases = []
    argsl = []
    for n in SCP_NAMES:
        for pre in (b'0644 3 ', b'0755  0\t', b' 0644 1 '):
            argsl.append(pre + n)
    for _ in range(1500 if ctx.tier == 'thorough' else 300):
        n = b''.join(rng.choice([b'.', b'.', b'/', b'\\', b'a', b' ', b'\r', b'\t', b'..']) for _ in range(rng.randint(0, 5)))
        argsl.append(b'0644 0 ' + n)
    argsl += [b'', b'0644', b'0644 0', b'0644 0 ', b'   ']
    for a in argsl:
        got = real_parse_cd(a)
        ctx.note_case(('cd', a), nontrivial=True)
        ctx.count('parse_cd.' + ('accepted' if got is not None else 'rejected'))
        cases.append('(%s, %s)' % (zl(a), copt(got, zl)))
        if got is not None and (b'/' in got or got == b'..'):
            ctx.failing_input(f'_parse_cd_args({a!r}) accepted name {got!r}',
                              {'kind': 'scp_name', 'args': a.decode('latin-1'), 'name': got.decode('latin-1')})
    bad = ctx.coq_cases('parse_cd', IMPORTS, 'chk_parse_cd', cases, ty='bytes * option bytes')
    if bad:
        ctx.broke('correspondence:parse_cd', f'{len(bad)} differ; first: {cases[bad[0]]}')


class _Log:
    def get_child(self, *_a, **_k):
        return self

    def __getattr__(self, name):
        return lambda *a, **k: None


class FakeReader:
    def __init__(self, data):
        self._d = data
        self.logger = _Log()

    async def read(self, n=-1):
        if n < 0:
            n = len(self._d)
        r, self._d = self._d[:n], self._d[n:]
        return r

    async def readline(self):
        i = self._d.find(b'\n')
        if i < 0:
            r, self._d = self._d, b''
        else:
            r, self._d = self._d[:i + 1], self._d[i + 1:]
        return r


class FakeWriter:
    def __init__(self):
        self.out = b''
        self.channel = self

    def write(self, d):
        self.out += d

    async def drain(self):
        pass

    def write_eof(self):
        pass

    def close(self):
        pass

    async def wait_closed(self):
        pass

    def __getattr__(self, name):
        return lambda *a, **k: None


class FakeFile:
    async def write(self, data, offset=None):
        return len(data)

    async def close(self):
        pass


class FakeFS:
    """Records every path the sink creates or writes; isdir(p) = last byte is not 'f'."""

    def __init__(self):
        self.touched = []

    @staticmethod
    def basename(p):
        return posixpath.basename(p)

    async def isdir(self, p):
        return not p.endswith(b'f')

    async def exists(self, p):
        return False

    async def mkdir(self, p, *a, **k):
        self.touched.append(p)

    async def open(self, p, *a, **k):
        self.touched.append(p)
        return FakeFile()

    async def setstat(self, p, *a, **k):
        self.touched.append(p)


def gen_scp_records(rng):
    recs = []
    for _ in range(rng.randint(1, 7)):
        k = rng.random()
        if k < 0.4:
            recs.append(('C', rng.choice(SCP_NAMES)))
        elif k < 0.7:
            recs.append(('D', rng.choice(SCP_NAMES)))
        elif k < 0.85:
            recs.append(('E', None))
        elif k < 0.95:
            recs.append(('T', None))
        else:
            recs.append(('X', None))
    return recs


def scp_stream(recs):
    out = b''
    for k, n in recs:
        if k == 'C':
            out += b'C0644 2 ' + n + b'\n'
            if not (b'/' in n or b'\\' in n or n == b'..'):   # a source sends data only after an OK
                out += b'hi\0'
        elif k == 'D':
            out += b'D0755 0 ' + n + b'\n'
        elif k == 'E':
            out += b'E\n'
        elif k == 'T':
            out += b'T1 0 2 0\n'
        else:
            out += b'Q\n'
    return out


def coq_rec(r):
    k, n = r
    return {'C': lambda: 'RecC ' + zl(n), 'D': lambda: 'RecD ' + zl(n), 'E': lambda: 'RecE',
            'T': lambda: 'RecT', 'X': lambda: 'RecX'}[k]()


def name_survives_split(n):
    # the model's sink takes names as parsed; only use names that the tokenizer leaves intact
    return n == n.lstrip(b' \t\n\r\x0b\x0c') and n != b''


async def run_sink(recs, dst, cont):
    scp = sys.modules.get('asyncssh.scp') or __import__('importlib').import_module('asyncssh.scp')
    fs = FakeFS()
    errors = []
    sink = scp._SCPSink(fs, FakeReader(scp_stream(recs)), FakeWriter(), False, False, True,
                        error_handler=(errors.append if cont else None))
    try:
        await sink.run(dst)
    except Exception as e:
        if not type(e).__name__.startswith('SFTP') and not isinstance(e, OSError):
            raise
    return fs.touched


def stage_scp_sink(ctx):
    rng = ctx.rng
    cases = []
    n = 2500 if ctx.tier == 'thorough' else 400
    deep = 0
    for i in range(n):
        recs = [r for r in gen_scp_records(rng) if r[1] is None or name_survives_split(r[1])]
        if not recs:
            continue
        dst = rng.choice([b'/dl/dst', b'/dl/dst/', b'dst', b'/dl/f'])
        cont = rng.random() < 0.5
        touched = asyncio.run(run_sink(recs, dst, cont))
        ctx.note_case(('sink', tuple(recs), dst, cont), nontrivial=len(touched) > 0)
        if len(touched) >= 3:
            deep += 1
        cases.append('(%s, %s, %s, %s)' % (cbool(cont), zl(dst), clist(recs, coq_rec), clist(touched, zl)))
        base = dst.rstrip(b'/') if dst != b'/' else dst
        for p in touched:
            rest = p[len(base):] if p.startswith(base) else None
            if rest is None or any(c == b'..' for c in rest.split(b'/')) or (rest[:1] not in (b'', b'/')):
                ctx.failing_input(f'SCP sink with destination {dst!r} touched {p!r} for records {recs!r}',
                                  {'kind': 'scp_sink', 'dst': dst.decode('latin-1'),
                                   'records': [[k, None if x is None else x.decode('latin-1')] for k, x in recs],
                                   'touched': p.decode('latin-1')})
        if i == 0:
            ctx.sample({'scp_sink': {'dst': repr(dst), 'records': repr(recs), 'touched': repr(touched)}})
    ctx.count('scp_sink.sequences_touching_3plus', deep)
    bad = ctx.coq_cases('scp_sink', IMPORTS, 'chk_scp_sink', cases)
    if bad:
        ctx.broke('correspondence:scp_sink', f'{len(bad)} differ; first: {cases[bad[0]]}')


# --------------------------------------------------------------------------------------------
# end-to-end oracles: real server / real downloads in a temp tree, observed through audit hooks

_AUDIT = {'on': False, 'events': []}
_WRITE_EVENTS = ('os.mkdir', 'os.rename', 'os.remove', 'os.rmdir', 'os.symlink', 'os.link', 'os.chmod',
                 'os.chown', 'os.utime', 'os.truncate', 'shutil.', 'os.listdir', 'os.scandir', 'open')


def _audit(event, args):
    if not _AUDIT['on']:
        return
    if event == 'open' or event.startswith('os.') or event.startswith('shutil.'):
        for a in args[:2]:
            if isinstance(a, (bytes, str)):
                _AUDIT['events'].append((event, os.fsencode(a), args[1] if event == 'open' and len(args) > 1 else None))


_installed = False


def install_audit():
    global _installed
    if not _installed:
        sys.addaudithook(_audit)
        _installed = True
        # stat-family calls raise no audit event: wrap them in this (harness) process
        for name in ('stat', 'lstat', 'readlink', 'statvfs'):
            orig = getattr(os, name)

            def wrap(p, *a, _o=orig, _n=name, **k):
                if _AUDIT['on'] and isinstance(p, (bytes, str)):
                    _AUDIT['events'].append(('os.' + _n, os.fsencode(p), None))
                return _o(p, *a, **k)
            setattr(os, name, wrap)


def snapshot(tree):
    snap = {}
    for d, dirs, files in os.walk(tree):
        for f in files + dirs:
            p = os.path.join(d, f)
            try:
                st = os.lstat(p)
                reg = os.path.isfile(p) and not os.path.islink(p)
                snap[p] = (st.st_mode, st.st_size, open(p, 'rb').read() if reg else None, st.st_mtime_ns if reg else None)
            except OSError:
                snap[p] = None
    return snap


async def e2e_chroot(ctx, tmp):
    import asyncssh
    jail = os.path.join(tmp, 'jail')
    os.makedirs(os.path.join(jail, 'a', 'b'))
    open(os.path.join(jail, 'a', 'file'), 'w').write('in')
    os.makedirs(os.path.join(tmp, 'outside', 'a'))
    open(os.path.join(tmp, 'outside', 'secret'), 'w').write('secret')
    open(os.path.join(tmp, 'outside', 'a', 'file'), 'w').write('secret2')
    tb = tmp.encode()
    jb = jail.encode()

    def sftpf(chan):
        return asyncssh.SFTPServer(chan, chroot=jb)
    listener, conn = await sshutil.loopback(srv_kw={'sftp_factory': sftpf})
    before = snapshot(os.path.join(tmp, 'outside'))
    try:
        sftp = await conn.start_sftp_client()
        targets = [b'outside/secret', b'outside/a/file', b'outside/new', b'outside', b'outside/a']
        shapes = ['/../%s', '//../%s', '/a/../../%s', '/a/b/../../../%s', '../%s', '//%s/%s', '///%s/%s', '/%s/%s',
                  '/./..//%s', '/a/b/../../..//..//%s', '/jail/../../%s', '//jail/../%s']
        paths = []
        for t in targets:
            for s in shapes:
                if s.count('%s') == 2:
                    paths.append((s % (tmp.lstrip('/'), t.decode())).encode())
                else:
                    paths.append((s % t.decode()).encode())
        paths += [b'//etc/hostname', b'/../../../../etc/hostname', b'//etc']
        # relative forms that climb exactly one level above the root from /a (the directory of the fixed second
        # argument of the two-path requests): the symlink-target validation used to lstat them (534f324)
        paths += [b'../../.a', b'..///..//.a', b'../../outside/secret', b'../../outside', b'b/../../../outside/a/file']
        rng = ctx.rng
        extra = 400 if ctx.tier == 'thorough' else 60
        for _ in range(extra):
            paths.append(gen_path(rng).replace(b'\x00', b'n').replace(b'etc', b'outside'))
        A = asyncssh.SFTPAttrs
        ops = [
            ('open-r', lambda p: sftp.open(p, 'rb')),
            ('open-w', lambda p: sftp.open(p, 'wb')),
            ('stat', lambda p: sftp.stat(p)),
            ('lstat', lambda p: sftp.lstat(p)),
            ('setstat', lambda p: sftp.setstat(p, A(permissions=0o644))),
            ('mkdir', lambda p: sftp.mkdir(p)),
            ('rmdir', lambda p: sftp.rmdir(p)),
            ('remove', lambda p: sftp.remove(p)),
            ('rename-from', lambda p: sftp.rename(p, b'/a/renamed')),
            ('rename-to', lambda p: sftp.rename(b'/a/file', p)),
            ('posix-rename-to', lambda p: sftp.posix_rename(b'/a/file', p)),
            ('symlink-new', lambda p: sftp.symlink(b'/a/file', p)),
            ('symlink-old', lambda p: sftp.symlink(p, b'/a/lnk')),
            ('link-new', lambda p: sftp.link(b'/a/file', p)),
            ('link-old', lambda p: sftp.link(p, b'/a/hl')),
            ('readlink', lambda p: sftp.readlink(p)),
            ('realpath', lambda p: sftp.realpath(p)),
            ('listdir', lambda p: sftp.listdir(p)),
            ('statvfs', lambda p: sftp.statvfs(p)),
            ('truncate', lambda p: sftp.truncate(p, 0)),
            ('utime', lambda p: sftp.utime(p, (1, 1))),
        ]
        nreq = 0
        for p in paths:
            for opname, op in ops:
                _AUDIT['events'] = []
                _AUDIT['on'] = True
                try:
                    r = await op(p)
                    if hasattr(r, 'close'):
                        await r.close()
                    outcome = 'ok'
                except (asyncssh.SFTPError, OSError, ValueError, UnicodeError) as e:
                    outcome = type(e).__name__
                finally:
                    _AUDIT['on'] = False
                nreq += 1
                ctx.note_case(('e2e', opname, p), nontrivial=True)
                ctx.count('e2e_chroot.' + outcome)
                for ev, ap, _m in _AUDIT['events']:
                    n = posixpath.normpath(ap) if ap.startswith(b'/') else None
                    if n is None:
                        continue
                    leaked = (n == tb or n.startswith(tb + b'/')) and not (n == jb or n.startswith(jb + b'/'))
                    if n == tb and ev in ('os.lstat', 'os.readlink', 'os.stat'):
                        leaked = False      # realpath() walks the ancestors of the root itself
                    leaked = leaked or n in (b'/etc/hostname', b'/etc')
                    if leaked and ev != 'os.lstat_parent':
                        ctx.failing_input(
                            f'chrooted SFTP server: request {opname} {p!r} reached {ap!r} ({ev}) outside root {jb!r}',
                            {'kind': 'e2e_chroot', 'op': opname, 'path': p.decode('latin-1'),
                             'reached': ap.decode('latin-1'), 'event': ev})
                        break
                # repair the fixture for the next request
                if not os.path.exists(os.path.join(jail, 'a', 'file')):
                    os.makedirs(os.path.join(jail, 'a'), exist_ok=True)
                    open(os.path.join(jail, 'a', 'file'), 'w').write('in')
                for junk in ('renamed', 'lnk', 'hl'):
                    try:
                        os.remove(os.path.join(jail, 'a', junk))
                    except OSError:
                        pass
        after = snapshot(os.path.join(tmp, 'outside'))
        if after != before:
            diff = sorted(set(after.items()) ^ set(before.items()), key=repr)[:3]
            ctx.failing_input(f'chrooted SFTP server modified files outside the root: {diff!r}',
                              {'kind': 'e2e_chroot_fs', 'diff': repr(diff)})
        ctx.cov['oracle']['e2e_chroot_requests'] = nreq
        ctx.sample({'e2e_chroot': {'op': 'open-r', 'path': repr(paths[1])}})
    finally:
        conn.close()
        listener.close()
        await listener.wait_closed()


HOSTILE_NAMES = [b'ok', b'../escape', b'../../escape', b'/ABS/escape', b'sub/../../escape', b'a/b', b'..', b'.', b'',
                 b'ok2', b'./x', b'..x', b'x/', b'/', b'//ABS/escape', b'a/../../escape2']


async def e2e_get(ctx, tmp):
    """Recursive SFTP get from a server that returns hostile directory-entry names."""
    import asyncssh
    dl = os.path.join(tmp, 'dl')
    os.makedirs(dl)
    state = {'names': []}

    class HostileSFTP(asyncssh.SFTPServer):
        def stat(self, path):
            if path.rstrip(b'/').endswith(b'dir') or path in (b'/', b'.'):
                return asyncssh.SFTPAttrs(type=asyncssh.FILEXFER_TYPE_DIRECTORY, permissions=0o40755, size=0)
            return asyncssh.SFTPAttrs(type=asyncssh.FILEXFER_TYPE_REGULAR, permissions=0o100644, size=4)
        lstat = stat

        def realpath(self, path):
            return path if path.startswith(b'/') else b'/' + path

        async def scandir(self, path):
            if path.rstrip(b'/').endswith(b'dir'):
                for n in state['names']:
                    isdir = state.get('dirs') and n.endswith(b'/')
                    yield asyncssh.SFTPName(n, attrs=asyncssh.SFTPAttrs(
                        type=asyncssh.FILEXFER_TYPE_DIRECTORY if isdir else asyncssh.FILEXFER_TYPE_REGULAR,
                        permissions=0o40755 if isdir else 0o100644, size=0 if isdir else 4))
            elif state.get('dirs'):
                # whatever directory the client walks into next holds one file
                yield asyncssh.SFTPName(b'evilT', attrs=asyncssh.SFTPAttrs(
                    type=asyncssh.FILEXFER_TYPE_REGULAR, permissions=0o100644, size=4))

        def open(self, path, pflags, attrs):
            import io
            return io.BytesIO(b'evil')

    listener, conn = await sshutil.loopback(srv_kw={'sftp_factory': HostileSFTP})
    cases = []
    try:
        sftp = await conn.start_sftp_client()
        names = list(HOSTILE_NAMES)
        rng = ctx.rng
        for _ in range(150 if ctx.tier == 'thorough' else 30):
            names.append(b''.join(rng.choice([b'.', b'..', b'/', b'a', b'esc']) for _ in range(rng.randint(1, 5))))
        for k, name in enumerate(names):
            work = os.path.join(dl, 'w%d' % k)
            dst = os.path.join(work, 'dst')
            os.makedirs(work)
            name_r = name.replace(b'/ABS', work.encode())
            state['names'] = [name_r]
            before = snapshot(tmp)
            _AUDIT['events'] = []
            _AUDIT['on'] = True
            err = None
            try:
                await sftp.get(b'/remotedir', dst, recurse=True)
            except (asyncssh.SFTPError, OSError, ValueError) as e:
                err = type(e).__name__
            finally:
                _AUDIT['on'] = False
            ctx.note_case(('get', name), nontrivial=b'/' in name or b'..' in name)
            ctx.count('e2e_get.' + ('raised' if err else 'ok'))
            after = snapshot(tmp)
            changed = sorted(p for p in set(before) | set(after) if before.get(p) != after.get(p))
            outside = [p for p in changed if not (p == dst or p.startswith(dst + '/')) and p != work]
            if outside:
                ctx.failing_input(
                    f'recursive SFTP get to {dst!r} with server-supplied entry name {name_r!r} changed {outside[:3]!r}',
                    {'kind': 'e2e_get', 'name': name.decode('latin-1'), 'changed_outside': outside[:3]})
            # observation for the correspondence: which destination path was opened for writing
            opened = [ap for ev, ap, mode in _AUDIT['events'] if ev == 'open' and ap.startswith(tmp.encode())
                      and isinstance(mode, str) and any(c in mode for c in 'wax+')]
            used = opened[0] if opened else None
            cases.append('(%s, %s, %s)' % (zl(dst.encode()), zl(name_r), copt(used, zl)))
            shutil.rmtree(work, ignore_errors=True)
        # glob expansion (mget) over listings whose DIRECTORY entries carry a trailing slash
        state['dirs'] = True
        for k2, name in enumerate([b'../', b'..//', b'x/', b'./', b'../x/']):
            for api in ('mget', 'get'):
                work = os.path.join(dl, 'g%d%s' % (k2, api))
                dst = os.path.join(work, 'sub', 'dst')
                os.makedirs(dst)
                state['names'] = [name, b'plain']
                before = snapshot(tmp)
                err = None
                try:
                    if api == 'mget':
                        await sftp.mget(b'/remotedir/*', dst, recurse=True)
                    else:
                        await sftp.get(b'/remotedir', dst, recurse=True)
                except (asyncssh.SFTPError, OSError, ValueError) as e:
                    err = type(e).__name__
                ctx.note_case(('get_dirslash', api, name), nontrivial=True)
                ctx.count('e2e_get.dirslash.' + ('raised' if err else 'ok'))
                after = snapshot(tmp)
                changed = sorted(p for p in set(before) | set(after) if before.get(p) != after.get(p))
                outside = [p for p in changed if not (p == dst or p.startswith(dst + '/'))]
                if outside:
                    ctx.failing_input(
                        f'recursive SFTP {api} to {dst!r} from a server listing the directory entry {name!r} changed '
                        f'{outside[:3]!r}', {'kind': 'e2e_get', 'name': name.decode('latin-1'), 'api': api,
                                             'changed_outside': outside[:3]})
                shutil.rmtree(work, ignore_errors=True)
        state['dirs'] = False
        ctx.sample({'e2e_get': {'entry_name': repr(names[1])}})
    finally:
        conn.close()
        listener.close()
        await listener.wait_closed()
    bad = ctx.coq_cases('get_name', IMPORTS, 'chk_get_name', cases, ty='bytes * bytes * option bytes')
    if bad:
        ctx.broke('correspondence:get_name', f'{len(bad)} differ; first: {cases[bad[0]]}')


async def e2e_get_links(ctx, tmp):
    """Recursive SFTP get from a server whose listings contain symbolic links with server-chosen targets, also
    followed by a directory or file of the SAME name, with and without preserve: nothing outside the destination
    may be created, overwritten, chmod-ed or touched."""
    import asyncssh
    import gc
    import io
    D, R, L = asyncssh.FILEXFER_TYPE_DIRECTORY, asyncssh.FILEXFER_TYPE_REGULAR, asyncssh.FILEXFER_TYPE_SYMLINK
    rng = ctx.rng
    base = os.path.join(tmp, 'gl')
    outside = os.path.join(base, 'outside')
    os.makedirs(os.path.join(outside, 'dir'))
    victim = os.path.join(outside, 'victim')
    state = {'listing': {}, 'target': {}}

    def attrs(t):
        perm = {D: 0o40755, R: 0o100644, L: 0o120777}[t]
        return asyncssh.SFTPAttrs(type=t, permissions=perm, size=4 if t == R else 0, atime=1000000000, mtime=1000000000)

    class LinkSFTP(asyncssh.SFTPServer):
        def _type(self, path):
            if path in (b'/', b'.', b'/remotedir'):
                return D
            parent, name = posixpath.split(path)
            for n, t in state['listing'].get(parent, []):
                if n == name:
                    return t
            return R

        def stat(self, path):
            t = self._type(path)
            return attrs(D if t == L else t)

        def lstat(self, path):
            if state.get('lstat_fail') and path.startswith(b'/remotedir/'):
                raise asyncssh.SFTPFailure('lstat refused')        # only the preserve step asks for these
            return attrs(self._type(path))

        def realpath(self, path):
            return path if path.startswith(b'/') else b'/' + path

        def readlink(self, path):
            return state['target'].get(path, b'/nonexistent')

        async def scandir(self, path):
            for n, t in state['listing'].get(path.rstrip(b'/') or b'/', []):
                yield asyncssh.SFTPName(n, attrs=attrs(t))

        def open(self, path, pflags, attrs_):
            return io.BytesIO(b'evil')

    listener, conn = await sshutil.loopback(srv_kw={'sftp_factory': LinkSFTP})
    nrun = 0
    try:
        sftp = await conn.start_sftp_client()
        ob = outside.encode()
        fixed = [
            ([(b'x', L), (b'x', D)], {b'x': ob + b'/dir'}, False),          # link, then a directory of the same name
            ([(b'x', L), (b'x', R)], {b'x': ob + b'/victim'}, False),       # link, then a file of the same name
            ([(b'x', L)], {b'x': ob + b'/victim'}, True),                   # preserve must not follow the new link
            ([(b'x', L)], {b'x': b'../../outside/victim'}, True),
            ([(b'x', L), (b'y', D), (b'x', D)], {b'x': b'../../outside/dir'}, True),
            ([(b'x', L), (b'x', D)], {b'x': ob + b'/dir'}, True),           # with an error handler and failing lstat
        ]
        n = 150 if ctx.tier == 'thorough' else 25
        for k in range(len(fixed) + n):
            work = os.path.join(base, 'w%d' % k)
            dst = os.path.join(work, 'dst')
            os.makedirs(work)
            with open(victim, 'w') as f_:
                f_.write('victim')
            os.chmod(victim, 0o600)
            os.utime(victim, (1500000000, 1500000000))
            if k < len(fixed):
                top, targets, preserve = fixed[k]
            else:
                names = [b'x', b'y', b'x', b'z']
                top = [(rng.choice(names), rng.choice([L, L, D, R])) for _ in range(rng.randint(1, 5))]
                targets = {nm: rng.choice([ob + b'/dir', ob + b'/victim', b'../../outside/dir', b'../../outside/victim',
                                            b'..', b'../..', b'/', b'.', b'y']) for nm in (b'x', b'y', b'z')}
                preserve = rng.random() < 0.5
            state['listing'] = {b'/remotedir': top}
            for nm, t in top:
                if t == D:
                    state['listing'][b'/remotedir/' + nm] = [(b'evil', R), (b'sub', D)]
                    state['listing'][b'/remotedir/' + nm + b'/sub'] = [(b'evil2', R)]
            state['target'] = {b'/remotedir/' + nm: tg for nm, tg in targets.items()}
            # a caller that collects errors instead of aborting, and a server that refuses the attribute query of
            # the preserve step: the copy goes on after an error, and must still never go through a new link
            handler = (k == len(fixed) - 1) or (k >= len(fixed) and rng.random() < 0.4)
            state['lstat_fail'] = handler and preserve and (k < len(fixed) or rng.random() < 0.6)
            collected = []
            before = snapshot(base)
            err = None
            try:
                await sftp.get(b'/remotedir', dst, recurse=True, preserve=preserve, sparse=False,
                               error_handler=(collected.append if handler else None))
            except (asyncssh.SFTPError, OSError, ValueError) as e:
                err = type(e).__name__
            nrun += 1
            gc.collect()                       # finalise abandoned scandir generators while the connection is open
            for _ in range(4):
                await asyncio.sleep(0)
            shape = tuple((nm, {D: 'D', R: 'R', L: 'L'}[t]) for nm, t in top)
            ctx.note_case(('get_links', shape, tuple(sorted(targets.items())), preserve),
                          nontrivial=any(t == L for _, t in top))
            ctx.count('e2e_get_links.' + ('raised' if err else 'ok'))
            after = snapshot(base)
            changed = sorted(p for p in set(before) | set(after) if before.get(p) != after.get(p))
            out = [p for p in changed if not (p == dst or p.startswith(dst + '/')) and p != work]
            if out:
                def what(p):
                    b, a = before.get(p), after.get(p)
                    if b is None:
                        return 'created'
                    if a is None:
                        return 'removed'
                    return ('content ' if b[2] != a[2] else '') + ('mode %o->%o ' % (b[0] & 0o7777, a[0] & 0o7777) if b[0] != a[0] else '') + \
                        ('mtime' if b[3] != a[3] else '')
                ctx.failing_input(
                    f'recursive SFTP get (preserve={preserve}, error_handler={handler}, lstat refused={state["lstat_fail"]}) to {dst!r} from a server listing {shape!r} with link '
                    f'targets {dict((k_.decode(), v.decode()) for k_, v in targets.items())!r} changed outside the '
                    f'destination: {[(p, what(p)) for p in out[:3]]!r}',
                    {'kind': 'e2e_get_links', 'listing': [[nm.decode(), t] for nm, t in top],
                     'targets': {k_.decode(): v.decode('latin-1') for k_, v in targets.items()}, 'preserve': preserve,
                     'error_handler': handler, 'lstat_fail': state['lstat_fail'],
                     'changed_outside': out[:3]})
            shutil.rmtree(work, ignore_errors=True)
    finally:
        conn.close()
        listener.close()
        await listener.wait_closed()
        shutil.rmtree(base, ignore_errors=True)
    ctx.cov['oracle']['e2e_get_links_runs'] = nrun


async def e2e_scp(ctx, tmp):
    """SCP download from a hostile source that sends arbitrary records."""
    import asyncssh
    state = {'recs': []}

    async def hostile(process):
        try:
            await process.stdin.read(1)
            for k, n in state['recs']:
                if k == 'C':
                    process.stdout.write(b'C0644 4 ' + n + b'\n')
                    await process.stdin.read(1)
                    process.stdout.write(b'evil\0')
                    await process.stdin.read(1)
                elif k == 'D':
                    process.stdout.write(b'D0755 0 ' + n + b'\n')
                    await process.stdin.read(1)
                elif k == 'E':
                    process.stdout.write(b'E\n')
                    await process.stdin.read(1)
                elif k == 'T':
                    process.stdout.write(b'T1 0 2 0\n')
                    await process.stdin.read(1)
        except Exception:
            pass
        process.exit(0)

    listener, conn = await sshutil.loopback(srv_kw={'process_factory': hostile, 'encoding': None})
    try:
        rng = ctx.rng
        n = 120 if ctx.tier == 'thorough' else 30
        for k in range(n):
            work = os.path.join(tmp, 'scp%d' % k)
            dst = os.path.join(work, 'dst')
            os.makedirs(dst)
            open(os.path.join(work, 'victim'), 'w').write('safe')
            recs = gen_scp_records(rng)
            recs = [(a, None if b is None else b.replace(b'/abs', work.encode() + b'/victim').replace(b'../x', b'../victim'))
                    for a, b in recs if a != 'X']
            state['recs'] = recs
            before = snapshot(work)
            err = None
            try:
                await asyncio.wait_for(asyncssh.scp((conn, 'src'), dst, recurse=True), 20)
            except (asyncssh.SFTPError, OSError, ValueError, asyncio.TimeoutError, asyncssh.Error) as e:
                err = type(e).__name__
            ctx.note_case(('scp', tuple(recs)), nontrivial=True)
            ctx.count('e2e_scp.' + ('raised' if err else 'ok'))
            after = snapshot(work)
            changed = sorted(p for p in set(before) | set(after) if before.get(p) != after.get(p))
            outside = [p for p in changed if not (p == dst or p.startswith(dst + '/'))]
            if outside:
                ctx.failing_input(
                    f'SCP download to {dst!r} from a hostile source changed {outside[:3]!r}; records {recs!r}',
                    {'kind': 'e2e_scp', 'records': [[a, None if b is None else b.decode('latin-1')] for a, b in recs],
                     'changed_outside': outside[:3]})
            shutil.rmtree(work, ignore_errors=True)
        ctx.sample({'e2e_scp': {'records': repr(state['recs'])}})
    finally:
        conn.close()
        listener.close()
        await listener.wait_closed()


def _check_links(ctx, jail, base, ops):
    """oracle: every symlink in the jail resolves inside the jail; raises StopIteration after reporting"""
    for d, dn, fn in os.walk(jail):
        for f in dn + fn:
            lp = os.path.join(d, f)
            if os.path.islink(lp):
                rp_ = os.path.realpath(lp)
                if not (rp_ == jail or rp_.startswith(jail + '/')):
                    ctx.failing_input(
                        f'chrooted SFTP server created symlink {lp[len(base):]!r} resolving to {rp_[len(base):]!r} '
                        f'outside the root after requests {ops!r}',
                        {'kind': 'e2e_symlink', 'ops': [[a.decode('latin-1'), b.decode('latin-1')] for a, b in ops],
                         'link': lp[len(base):], 'resolves_to': rp_[len(base):],
                         'after_dir_rename': b'rename dir ' in ops[-1][0]})
                    raise StopIteration


async def e2e_symlinks(ctx, tmp):
    """Sequences of mkdir/symlink requests against a real chrooted server; after every request every
    symlink inside the root must still resolve (physically) inside the root."""
    import asyncssh
    rng = ctx.rng
    nseq = 400 if ctx.tier == 'thorough' else 80
    made = 0
    # corpus of minimised earlier failures, run first on every run
    corpus = [
        [('symlink', b'/..', b'/l0'), ('symlink', b'..', b'/l0/l1')],                          # C13-3
        [('symlink', b'/', b'/a/b/l'), ('symlink', b'../../../etc', b'/a/b/l/x')],             # C13-3
        [('symlink', b'../..', b'/a/b/up'), ('rename', b'/a/b/up', b'/up')],                   # C13-4
        [('symlink', b'../..', b'/a/b/up'), ('posix_rename', b'/a/b/up', b'/up')],             # C13-4
        [('symlink', b'../..', b'/a/b/c/l0'), ('posix_rename', b'/a/b/c', b'/m2')],            # C13-5 (known)
        # a directory NEXT to the root whose name starts with the root's name (jail / jail-backup): a dangling link
        # inside the root that would point there once moved up one level
        [('symlink', b'../jail-backup/secret.txt', b'/a/l'), ('rename', b'/a/l', b'/l')],
        [('symlink', b'../jail-backup/secret.txt', b'/a/l'), ('posix_rename', b'/a/l', b'/l')],
        [('symlink', b'../../jail-backup', b'/a/b/l'), ('rename', b'/a/b/l', b'/l')],
        # moving a relative link ONTO an existing link (valid or dangling): where the moved link will sit is the
        # destination's directory, not where the old destination link pointed
        [('symlink', b'../outside/secret.txt', b'/a/b/l'), ('symlink', b'a/b/f', b'/s'), ('posix_rename', b'/a/b/l', b'/s')],
        [('symlink', b'../outside/secret.txt', b'/a/b/l'), ('symlink', b'a/b/nothing', b'/d'), ('rename', b'/a/b/l', b'/d')],
        [('symlink', b'../../outside', b'/a/b/c/l'), ('symlink', b'a/b/c/x', b'/s'), ('posix_rename', b'/a/b/c/l', b'/s')],
    ]
    for k in range(nseq + len(corpus)):
        fixed = corpus[k] if k < len(corpus) else None
        base = os.path.join(tmp, 'sl%d' % k)
        jail = os.path.join(base, 'jail')
        os.makedirs(os.path.join(jail, 'a', 'b', 'c'))
        os.makedirs(os.path.join(base, 'outside'))
        with open(os.path.join(base, 'outside', 'secret.txt'), 'w') as f_:
            f_.write('outside the root')
        os.makedirs(os.path.join(base, 'jail-backup'))
        with open(os.path.join(base, 'jail-backup', 'secret.txt'), 'w') as f_:
            f_.write('outside the root')
        jb = jail.encode()

        def sftpf(chan, jb=jb):
            return asyncssh.SFTPServer(chan, chroot=jb)
        listener, conn = await sshutil.loopback(srv_kw={'sftp_factory': sftpf})
        try:
            sftp = await conn.start_sftp_client()
            links = []          # client-visible paths of links created so far
            dirs = [b'/', b'/a', b'/a/b', b'/a/b/c']
            ops = []
            for step in range(len(fixed) if fixed else rng.randint(2, 5)):
                if fixed:
                    kind_, a_, b_ = fixed[step]
                    if kind_ == 'symlink':
                        ops.append((a_, b_))
                        try:
                            await sftp.symlink(a_, b_)
                            links.append(b_)
                            made += 1
                        except (asyncssh.SFTPError, OSError):
                            pass
                    else:
                        is_link = os.path.islink(os.path.join(jail, a_.decode().lstrip('/')))
                        ops.append((kind_.encode() + (b' ' if is_link else b' dir ') + a_, b_))
                        try:
                            await getattr(sftp, kind_)(a_, b_)
                            made += 1
                        except (asyncssh.SFTPError, OSError):
                            pass
                    _check_links(ctx, jail, base, ops)
                    continue
                # new links are also created THROUGH earlier links (a link to a directory is a directory)
                newdir = rng.choice(dirs + links + links)
                name = b'l%d' % step
                newpath = posixpath.join(newdir, name)
                parts = []
                for _ in range(rng.randint(1, 4)):
                    r = rng.random()
                    if r < 0.45:
                        parts.append(b'..')
                    elif r < 0.65 and links:
                        parts.append(posixpath.relpath(rng.choice(links), newdir))
                    else:
                        parts.append(rng.choice([b'a', b'b', b'c', b'.', b'a/b/c', b'jail-backup', b'jail-backup/secret.txt']))
                target = b'/'.join(parts)
                if rng.random() < 0.25:
                    target = rng.choice([b'/', b'/', b'/a', b'/' + target])
                if links and rng.random() < 0.3:
                    # move an existing link (or a directory holding one) somewhere else
                    src = rng.choice(links + [posixpath.dirname(l) for l in links if posixpath.dirname(l) != b'/'])
                    dstp = posixpath.join(rng.choice([b'/', b'/a', b'/a/b']), b'm%d' % step)
                    if rng.random() < 0.3:
                        dstp = rng.choice(links)            # onto an existing link (posix_rename replaces it)
                    ren = rng.choice(['rename', 'posix_rename'])
                    src_is_link = os.path.islink(os.path.join(jail, src.decode().lstrip('/')))
                    ops.append((ren.encode() + (b' ' if src_is_link else b' dir ') + src, dstp))
                    try:
                        await getattr(sftp, ren)(src, dstp)
                        links = [dstp if l == src else (dstp + l[len(src):] if l.startswith(src + b'/') else l) for l in links]
                        dirs = [dstp if d_ == src else (dstp + d_[len(src):] if d_.startswith(src + b'/') else d_) for d_ in dirs]
                        made += 1
                    except (asyncssh.SFTPError, OSError):
                        continue
                else:
                    ops.append((target, newpath))
                    try:
                        await sftp.symlink(target, newpath)
                        links.append(newpath)
                        made += 1
                    except (asyncssh.SFTPError, OSError):
                        continue
                _check_links(ctx, jail, base, ops)
            ctx.note_case(('symlinks', tuple(ops)), nontrivial=len(ops) >= 2)
        except StopIteration:
            pass
        finally:
            conn.close()
            listener.close()
            await listener.wait_closed()
            shutil.rmtree(base, ignore_errors=True)
    ctx.cov['oracle']['e2e_symlinks_created'] = made
    ctx.sample({'e2e_symlinks': {'last_sequence': repr(ops)}})


def stage_e2e(ctx):
    install_audit()
    tmp = os.path.realpath(tempfile.mkdtemp(prefix='c13e-', dir='/var/tmp'))
    try:
        sshutil.run(e2e_chroot(ctx, tmp))
        sshutil.run(e2e_get(ctx, tmp))
        sshutil.run(e2e_get_links(ctx, tmp))
        sshutil.run(e2e_scp(ctx, tmp))
        sshutil.run(e2e_symlinks(ctx, tmp))
    finally:
        _AUDIT['on'] = False
        shutil.rmtree(tmp, ignore_errors=True)


def run(ctx):
    ctx.cov['rule'] = ('hostile path strings over the component alphabet {"", ".", "..", names, NUL/0xff/backslash} with 0-4 '
                       'leading slashes (exhaustive to a small depth + seeded random), SCP record sequences over hostile '
                       'names, hostile directory-entry names; a case is non-trivial when it contains "..", a doubled '
                       'leading slash or a separator inside a name; distinct = distinct (operation, input) tuples')
    ctx.cov['trusted_base'] += [
        'posixpath.normpath/join are modelled (Model/Paths.v) and tied by correspondence on every run',
        'pre-existing symlinks inside the root and symlink-then-directory sequences are not modelled '
        '(covered only by the audit-hook oracle on the generated requests)',
        'Python audit events + wrapped os.stat/lstat/readlink/statvfs are trusted to report file-system access',
    ]
    ctx.prove()
    stage_map_path(ctx)
    stage_scp_names(ctx)
    stage_scp_sink(ctx)
    stage_e2e(ctx)
    try:
        from .. import c13_copy
        c13_copy.stage_copy(ctx)
    except Exception as e:                                            # noqa
        ctx.broke('stage:copy', repr(e))


def replay(rp):
    core.setup_paths()
    kind = rp.get('kind')
    if str(kind).startswith('copy_'):
        from .. import c13_copy
        return c13_copy.replay_copy(rp)
    if kind == 'map_path':
        root = rp['root'].encode('latin-1')
        p = rp['path'].encode('latin-1')
        srv = make_server(root) if os.path.isdir(root) else None
        if srv is None:
            import asyncssh
            srv = asyncssh.SFTPServer(StubChan(), chroot=b'/')
            srv._chroot = root
        got = srv.map_path(p)
        ok = lex_inside(root, got)
        print('map_path ->', got, 'inside' if ok else 'OUTSIDE')
        return 0 if ok else 1
    if kind == 'scp_name':
        got = real_parse_cd(rp['args'].encode('latin-1'))
        bad = got is not None and (b'/' in got or got == b'..')
        print('parse ->', got)
        return 1 if bad else 0
    print('replay of kind', kind, 'requires the full stage; run ./check C13')
    return 2
