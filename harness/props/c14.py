"""C14 - Each SFTP request gets exactly one matching, well-typed reply."""
import asyncio
import errno as errno_mod
import os
import struct
import sys

from .. import core, sshutil
from ..core import zl, copt, cbool, clist, cz
from .. import c14_wire as W
from ..c14_wire import u32, u64, sstr, frame
from .. import c14_client as C

IMPORTS = 'From AV Require Import Base.Prelude Model.SftpProto Corr.C14Corr.'
VERSIONS = (3, 4, 5, 6)


def _sftp():
    import asyncssh.sftp
    return asyncssh.sftp


def _packet(b):
    from asyncssh.packet import SSHPacket
    return SSHPacket(b)


def report(ctx, name, bad, cases, what=''):
    if bad:
        ctx.broke('correspondence:' + name, f'{len(bad)} of {len(cases)} cases differ{what}; first: {cases[bad[0]][:1500]}')


# =============================================================================================
# Stage A: attribute / name / status codecs

def impl_attrs_encode(t, v):
    a = W.attrs_to_impl(t)
    if a is None:
        return 'skip'
    try:
        return a.encode(v)
    except Exception:
        return None


def impl_attrs_decode(b, v):
    sftp = _sftp()
    p = _packet(b)
    try:
        a = sftp.SFTPAttrs.decode(p, v)
    except Exception as e:
        return ('err', W.classify_exc(e))
    return ('ok', (W.attrs_from_impl(a), p.get_remaining_payload()))


def impl_name_decode(b, v):
    sftp = _sftp()
    p = _packet(b)
    try:
        n = sftp.SFTPName.decode(p, v)
    except Exception as e:
        return ('err', W.classify_exc(e))
    return ('ok', (W.name_from_impl(n), p.get_remaining_payload()))


def oracle_attrs_roundtrip(ctx, v, t, rest=b'\x07rest'):
    """Direct oracle: a record the version can carry must encode, and decoding the bytes (followed by
    arbitrary further data) must give back the same record and leave exactly that data."""
    if not W.py_carriable(v, t):
        return None
    enc = impl_attrs_encode(t, v)
    if enc == 'skip':
        return None
    ok = False
    got = None
    if enc is not None:
        got = impl_attrs_decode(enc + rest, v)
        ok = got == ('ok', (tuple(t), rest))
    if not ok:
        ctx.failing_input(
            f'SFTPv{v} attributes {dict((k, x) for k, x in zip(W.FIELDS, t) if x not in (None, []))!r} do not survive '
            f'encode/decode: encoded={enc!r} decoded={got!r}',
            {'kind': 'attrs_roundtrip', 'version': v, 'attrs': _jsonable(t)})
    return ok


def _jsonable(t):
    out = []
    for x in t:
        if isinstance(x, bytes):
            out.append({'b': x.hex()})
        elif isinstance(x, list):
            out.append([[a.hex(), b.hex()] for a, b in x])
        else:
            out.append(x)
    return out


def _unjson(t):
    out = []
    for x in t:
        if isinstance(x, dict):
            out.append(bytes.fromhex(x['b']))
        elif isinstance(x, list):
            out.append([(bytes.fromhex(a), bytes.fromhex(b)) for a, b in x])
        else:
            out.append(x)
    return tuple(out)


def exhaustive_flag_records(v):
    """One record per combination of the presence flags the version defines (fixed in-range values)."""
    groups = [('size', {'size': 2 ** 40 + 5})]
    if v == 3:
        groups += [('uidgid', {'uid': 1000, 'gid': 2 ** 32 - 1}), ('perm', {'permissions': 0o100644, 'type': 1}),
                   ('acmod', {'atime': 1700000000, 'mtime': 2 ** 32 - 1})]
    else:
        groups += [('owngrp', {'owner': 'müller'.encode(), 'group': b'wheel'}), ('perm', {'permissions': 0o755}),
                   ('atime', {'atime': 2 ** 33}), ('crtime', {'crtime': 7}), ('mtime', {'mtime': 2 ** 64 - 1}),
                   ('subsec', None), ('acl', {'acl': b'\x00acl'})]
        if v >= 5:
            groups += [('bits', {'attrib_bits': 0x41, 'attrib_valid': 0xffffffff})]
        if v >= 6:
            groups += [('alloc', {'alloc_size': 4096}), ('hint', {'text_hint': 2}), ('mime', {'mime_type': b'text/plain'}),
                       ('nlink', {'nlink': 3}), ('untrans', {'untrans_name': b'\xff\xfe'}), ('ctime', {'ctime': 11})]
    groups += [('ext', {'extended': [(b'k@x', b'v'), (b'', b'\x00')]})]
    out = []
    n = len(groups)
    for mask in range(1 << n):
        t = W.blank()
        if v >= 4:
            t[0] = 1 + (mask % 5)
        sub = False
        for i, (name, fields) in enumerate(groups):
            if mask >> i & 1:
                if name == 'subsec':
                    sub = True
                else:
                    for k, x in fields.items():
                        t[W.IDX[k]] = x
        if sub:
            for k in ('atime', 'crtime', 'mtime', 'ctime'):
                if t[W.IDX[k]] is not None:
                    t[W.IDX[k + '_ns']] = 999999999 if k != 'crtime' else 0
        out.append(tuple(t))
    return out


def stage_codecs(ctx):
    rng = ctx.rng
    sftp = _sftp()
    thorough = ctx.tier == 'thorough'
    enc_cases, dec_cases, car_cases = [], [], []
    nenc_cases, ndec_cases, ncar_cases = [], [], []
    n_carriable = {v: 0 for v in VERSIONS}
    flagsets = {v: set() for v in VERSIONS}

    def one_record(v, t):
        car = W.py_carriable(v, t)
        car_cases.append('(%d, %s, %s)' % (v, W.attrs_to_coq(t), cbool(car)))
        enc = impl_attrs_encode(t, v)
        if enc != 'skip':
            enc_cases.append('(%d, %s, %s)' % (v, W.attrs_to_coq(t), copt(enc, zl)))
        if car:
            n_carriable[v] += 1
            flagsets[v].add(tuple(x is not None and x != [] for x in t[1:]))
            oracle_attrs_roundtrip(ctx, v, t, rest=bytes(rng.randrange(256) for _ in range(rng.randint(0, 3))))
        ctx.note_case(('attrs', v, t), nontrivial=car)
        ctx.count(f'attrs.v{v}.' + ('carriable' if car else 'not_carriable'))
        return enc

    # every presence-flag combination of every version (fixed values), then seeded random records
    for v in VERSIONS:
        recs = exhaustive_flag_records(v)
        if not thorough and len(recs) > 1200:
            recs = recs[:64] + rng.sample(recs[64:], 1100)
        for t in recs:
            enc = one_record(v, t)
            if enc not in (None, 'skip') and rng.random() < (1.0 if thorough else 0.15):
                r = impl_attrs_decode(enc, v)
                dec_cases.append('(%d, %s, %s)' % (v, zl(enc), W.res_to_coq(
                    r, lambda x: '(%s, %s)' % (W.attrs_to_coq(x[0]), zl(x[1])))))
    ctx.cov['exhaustive'] = {f'attr_presence_combinations_v{v}': len(exhaustive_flag_records(v)) for v in VERSIONS} \
        if thorough else {}
    n_rand = 5000 if thorough else 900
    for i in range(n_rand):
        v = VERSIONS[i % 4]
        t = W.gen_attrs(rng, v)
        one_record(v, t)
        if i < 3:
            ctx.sample({'attrs_record': {'version': v, 'fields': {k: repr(x) for k, x in zip(W.FIELDS, t) if x not in (None, [])}}})
    # decode direction: raw blocks built independently, with truncations / extensions / bit flips
    n_raw = 4000 if thorough else 800
    dec_classes = {}
    for i in range(n_raw):
        v = VERSIONS[i % 4]
        b = W.raw_attrs(rng, v)
        if rng.random() < 0.45:
            b = W.mutate(rng, b)
        variants = [b]
        if i % 20 == 0:        # every truncation of this block
            variants += [b[:k] for k in range(len(b))]
        for bb in variants:
            r = impl_attrs_decode(bb, v)
            dec_classes[r[0] if r[0] == 'ok' else str(r[1])] = dec_classes.get(r[0] if r[0] == 'ok' else str(r[1]), 0) + 1
            dec_cases.append('(%d, %s, %s)' % (v, zl(bb), W.res_to_coq(
                r, lambda x: '(%s, %s)' % (W.attrs_to_coq(x[0]), zl(x[1])))))
            ctx.note_case(('attrs_dec', v, bb), nontrivial=len(bb) > 4)
    for k, n in dec_classes.items():
        ctx.count('attrs_decode.' + k, n)

    # names
    for i in range(1200 if thorough else 300):
        v = VERSIONS[i % 4]
        t = W.gen_attrs(rng, v, wild=0.05)
        fn = rng.choice([b'f', b'', b'dir/x', 'ü'.encode(), b'\xff\x00'])
        ln = rng.choice([b'-rw-r--r-- 1 u g 5 Jan 1 f', b'']) if (v == 3) != (rng.random() < 0.1) else None
        n = (fn, ln, t)
        car = W.py_name_carriable(v, n)
        ncar_cases.append('(%d, %s, %s)' % (v, W.name_to_coq(n), cbool(car)))
        impl = W.name_to_impl(n)
        enc = None
        if impl is not None:
            try:
                enc = impl.encode(v)
            except Exception:
                enc = None
            nenc_cases.append('(%d, %s, %s)' % (v, W.name_to_coq(n), copt(enc, zl)))
        if car and impl is not None:
            rest = b'\x01\x02'
            got = impl_name_decode((enc or b'') + rest, v) if enc is not None else None
            if got != ('ok', (n, rest)):
                ctx.failing_input(f'SFTPv{v} name {n!r} does not survive encode/decode: {enc!r} -> {got!r}',
                                  {'kind': 'name_roundtrip', 'version': v, 'filename': fn.hex(),
                                   'longname': None if ln is None else ln.hex(), 'attrs': _jsonable(t)})
        ctx.note_case(('name', v, n), nontrivial=car)
        if enc is not None:
            bb = enc if rng.random() < 0.5 else W.mutate(rng, enc)
            r = impl_name_decode(bb, v)
            ndec_cases.append('(%d, %s, %s)' % (v, zl(bb), W.res_to_coq(
                r, lambda x: '(%s, %s)' % (W.name_to_coq(x[0]), zl(x[1])))))

    # UTF-8 validity and stat-mode -> file type helpers of the model
    utf_cases = []
    pool = W.GOOD_TEXT + W.BAD_TEXT
    for _ in range(1500 if thorough else 400):
        b = rng.choice(pool)
        if rng.random() < 0.6:
            b = b + rng.choice(pool)
        if rng.random() < 0.4:
            b = W.mutate(rng, b)
        if rng.random() < 0.2:
            b = bytes(rng.choice([0x7f, 0x80, 0xbf, 0xc2, 0xdf, 0xe0, 0xa0, 0x9f, 0xed, 0xef, 0xf0, 0x90, 0x8f, 0xf4, 0xf5, 0x41])
                      for _ in range(rng.randint(1, 4)))
        utf_cases.append('(%s, %s)' % (zl(b), cbool(W.utf8_ok(b))))
    ft_cases = ['(%d, %d)' % (m, sftp._stat_mode_to_filetype(m)) if hasattr(sftp, '_stat_mode_to_filetype')
                else '(%d, %d)' % (m, W.filetype_of_mode(m))
                for m in [x << 12 | y for x in range(16) for y in (0, 0o644, 0o7777)] + [2 ** 32 - 1, 2 ** 31, 0o1000000]]

    ty_a = 'Z * attrs * option bytes'
    report(ctx, 'attrs_encode', ctx.coq_cases('attrs_encode', IMPORTS, 'chk_attrs_enc', enc_cases, ty=ty_a, shard=300), enc_cases)
    report(ctx, 'attrs_decode', ctx.coq_cases('attrs_decode', IMPORTS, 'chk_attrs_dec', dec_cases,
                                              ty='Z * bytes * res (attrs * bytes)', shard=300), dec_cases)
    report(ctx, 'attrs_carriable', ctx.coq_cases('attrs_carriable', IMPORTS, 'chk_carriable', car_cases,
                                                 ty='Z * attrs * bool', shard=400), car_cases)
    report(ctx, 'name_encode', ctx.coq_cases('name_encode', IMPORTS, 'chk_name_enc', nenc_cases,
                                             ty='Z * sname * option bytes'), nenc_cases)
    report(ctx, 'name_decode', ctx.coq_cases('name_decode', IMPORTS, 'chk_name_dec', ndec_cases,
                                             ty='Z * bytes * res (sname * bytes)'), ndec_cases)
    report(ctx, 'name_carriable', ctx.coq_cases('name_carriable', IMPORTS, 'chk_name_carriable', ncar_cases,
                                                ty='Z * sname * bool'), ncar_cases)
    report(ctx, 'utf8_valid', ctx.coq_cases('utf8_valid', IMPORTS, 'chk_utf8', utf_cases, ty='bytes * bool'), utf_cases)
    report(ctx, 'filetype_of_mode', ctx.coq_cases('filetype', IMPORTS, 'chk_filetype', ft_cases, ty='Z * Z'), ft_cases)

    for v in VERSIONS:
        ctx.cov['oracle'][f'roundtrip_records_v{v}'] = n_carriable[v]
        ctx.cov['oracle'][f'distinct_presence_sets_v{v}'] = len(flagsets[v])
        if n_carriable[v] < 50 or len(flagsets[v]) < 12:
            ctx.broke('vacuity:attrs', f'version {v}: only {n_carriable[v]} carriable records / {len(flagsets[v])} presence sets')
    if not any(k not in ('ok',) for k in dec_classes) or 'decode' not in dec_classes or '5' not in dec_classes:
        ctx.broke('vacuity:attrs_decode', f'error classes seen: {dec_classes}')


# =============================================================================================
# Shared: a real asyncssh SFTP server whose application methods follow a script, and a raw client

ERRNO_NAMES = ['ENOENT', 'EACCES', 'EEXIST', 'EROFS', 'ENOSPC', 'EDQUOT', 'ENOTEMPTY', 'ENOTDIR', 'ENAMETOOLONG',
               'EILSEQ', 'ELOOP', 'EINVAL', 'EISDIR']          # symbolic index 1..13, 0 = anything else
# documented meaning of each local error (draft-ietf-secsh-filexfer-13 section 9.1 names), independent restatement
DOC_ERRNO_CODE = {'ENOENT': 2, 'EACCES': 3, 'EEXIST': 11, 'EROFS': 12, 'ENOSPC': 14, 'EDQUOT': 15, 'ENOTEMPTY': 18,
                  'ENOTDIR': 19, 'ENAMETOOLONG': 20, 'EILSEQ': 20, 'ELOOP': 21, 'EINVAL': 23, 'EISDIR': 24}
MIN_VERSION = lambda code: 3 if code <= 8 else 4 if code <= 13 else 5 if code <= 17 else 6


def errno_sym(e):
    for i, n in enumerate(ERRNO_NAMES, 1):
        if getattr(errno_mod, n, None) == e and e is not None:
            return i
    return 0


def doc_status(v, code):
    """Status code a version-v peer must see for documented code `code` (restated from the draft / docs table)."""
    if code == 19 and v < 6:
        return 2
    if code <= 31 and MIN_VERSION(code) > v:
        return 4
    return code


class OtherError(Exception):
    pass


def make_scripted_server(state):
    """SFTPServer subclass; state['script'] decides what the first application call of a request does:
    'ok' | 'empty' | ('sftp', code) | ('os', errno or None) | 'notimpl' | 'other'"""
    import asyncssh

    def act():
        if state.get('used'):
            return 'ok'
        state['used'] = True
        state['calls'] = state.get('calls', 0) + 1
        k = state.get('script', 'ok')
        if k in ('ok', 'empty'):
            return k
        if k == 'notimpl':
            raise NotImplementedError
        if k == 'other':
            raise OtherError('scripted')
        if k[0] == 'sftp':
            raise asyncssh.SFTPError(k[1], 'scripted')
        if k[0] == 'os':
            if k[1] is None:
                raise OSError('scripted')
            raise OSError(k[1], 'scripted')
        raise AssertionError(k)

    def mkattrs():
        return asyncssh.SFTPAttrs(type=1, size=4, permissions=0o100644, uid=1, gid=1, atime=1, mtime=1)

    class FObj:
        def seek(self, pos, whence=0):
            r = act()
            if r == 'empty':
                raise OSError(errno_mod.ENXIO, 'no more data')
            return pos if whence == getattr(os, 'SEEK_DATA', 3) else pos + (1 << 40)

    class Scripted(asyncssh.SFTPServer):
        def open(self, path, pflags, attrs):
            act()
            return FObj()

        def open56(self, path, desired_access, flags, attrs):
            act()
            return FObj()

        def close(self, file_obj):
            act()

        def read(self, file_obj, offset, size):
            return b'' if act() == 'empty' else b'data'

        def write(self, file_obj, offset, data):
            act()
            return len(data)

        def lstat(self, path):
            act()
            return mkattrs()

        stat = lstat

        def fstat(self, file_obj):
            act()
            return mkattrs()

        def setstat(self, path, attrs):
            act()

        lsetstat = setstat

        def fsetstat(self, file_obj, attrs):
            act()

        async def scandir(self, path):
            while True:
                if act() == 'empty':
                    return
                for i in range(128):
                    yield asyncssh.SFTPName(b'n%d' % i, b'long', mkattrs())

        def remove(self, path):
            act()

        def mkdir(self, path, attrs):
            act()

        rmdir = remove

        def realpath(self, path):
            act()
            return b'/real'

        def rename(self, oldpath, newpath):
            act()

        posix_rename = symlink = link = rename

        def readlink(self, path):
            act()
            return b'/target'

        def statvfs(self, path):
            act()
            return asyncssh.SFTPVFSAttrs()

        fstatvfs = statvfs

        def lock(self, file_obj, offset, length, flags):
            act()

        def unlock(self, file_obj, offset, length):
            act()

        def fsync(self, file_obj):
            act()

        def exit(self):
            pass
    return Scripted


SENTINEL_TYPE = 250
SENTINEL_BASE = 0xF0000000


class RawSession:
    """A raw SFTP client on a real channel: frames go out as given, replies are read frame by frame."""

    def __init__(self, conn, state):
        self.conn = conn
        self.state = state
        self.nsent = 0
        self.closed = False

    async def start(self, v):
        self.w, self.r, _ = await self.conn.open_session(subsystem='sftp', encoding=None)
        self.w.write(frame(b'\x01' + u32(v)))
        ver = await self.read_frame()
        if ver is None or ver[0] != 2:
            raise RuntimeError('no FXP_VERSION from server: %r' % (ver,))
        self.version = struct.unpack('>I', ver[1:5])[0]
        return self.version

    async def read_frame(self):
        try:
            hdr = await asyncio.wait_for(self.r.readexactly(4), 60)
            return await asyncio.wait_for(self.r.readexactly(struct.unpack('>I', hdr)[0]), 60)
        except asyncio.TimeoutError:
            raise
        except Exception:            # IncompleteReadError, ConnectionLost, BrokenPipe ...: the stream is gone
            return None

    async def request(self, pkt, script='ok'):
        """Send one request packet followed by a sentinel (a request of an undefined type with a reserved id);
        return (replies received before the sentinel's reply, session_closed)."""
        self.state['script'] = script
        self.state['used'] = False
        sid = SENTINEL_BASE + self.nsent
        self.nsent += 1
        try:
            self.w.write(frame(pkt) + frame(bytes([SENTINEL_TYPE]) + u32(sid)))
        except Exception:
            self.closed = True
            return [], True
        got = []
        while True:
            try:
                fr = await self.read_frame()
            except asyncio.TimeoutError:
                return got, 'hang'
            if fr is None:
                self.closed = True
                return got, True
            if len(fr) >= 5 and fr[0] == 101 and struct.unpack('>I', fr[1:5])[0] == sid:
                return got, False
            got.append(fr)

    def close(self):
        try:
            self.w.write_eof()
            self.w.close()
        except Exception:
            pass


def parse_reply(fr):
    """(type, id, body class) ; body class = ('status', code) | ('handle', bytes) | ('value',)"""
    if len(fr) < 5:
        return (fr[0] if fr else -1, -1, ('value',))
    t = fr[0]
    rid = struct.unpack('>I', fr[1:5])[0]
    if t == 101 and len(fr) >= 9:
        return (t, rid, ('status', struct.unpack('>I', fr[5:9])[0]))
    if t == 102 and len(fr) >= 9:
        n = struct.unpack('>I', fr[5:9])[0]
        return (t, rid, ('handle', fr[9:9 + n]))
    return (t, rid, ('value',))


def reply_to_coq(r):
    t, rid, b = r
    body = 'RValue' if b[0] == 'value' else ('(RStatus %d)' % b[1] if b[0] == 'status' else '(RHandle %s)' % zl(b[1]))
    return '(mkreply %d %d %s)' % (t, rid, body)


def script_to_coq(sc):
    if sc == 'ok':
        return 'BOk'
    if sc == 'empty':
        return 'BEmpty'
    if sc == 'notimpl':
        return 'BNotImpl'
    if sc == 'other':
        return 'BOther'
    if sc[0] == 'sftp':
        return '(BSftp %d)' % sc[1]
    return '(BOs %d)' % errno_sym(sc[1])


# =============================================================================================
# Stage B: finite tables taken from the running code

def table_text(t):
    L = ['(* GENERATED by harness/props/c14.py from the running asyncssh (tables over finite domains, taken',
         '   by exhaustive evaluation of the live code).  Regenerated and compared on every run. *)',
         'From AV Require Import Base.Prelude.', '']
    L.append('(* errno raised by the application -> (errno, symbolic index, status code sent in v3,v4,v5,v6); errno -1 = OSError without errno *)')
    L.append('Definition gen_errno_status : list (Z * Z * list Z) := [\n  ' +
             ';\n  '.join('(%s, %d, %s)' % (cz(e), s, zl(c)) for e, s, c in t['errno']) + '].')
    L.append('(* SFTPError(code) raised by the application -> status code sent in v3,v4,v5,v6 *)')
    L.append('Definition gen_sftp_status : list (Z * list Z) := [\n  ' +
             ';\n  '.join('(%d, %s)' % (c, zl(x)) for c, x in t['sftp']) + '].')
    L.append('(* request types (0..255, except FXP_EXTENDED) the server has a handler for, per version *)')
    L.append('Definition gen_handled_types : list (Z * list Z) := [\n  ' +
             ';\n  '.join('(%d, %s)' % (v, zl(x)) for v, x in t['handled']) + '].')
    L.append('(* attribute flag bits (0..31) the decoder accepts on their own, per version *)')
    L.append('Definition gen_accepted_attr_bits : list (Z * list Z) := [\n  ' +
             ';\n  '.join('(%d, %s)' % (v, zl(x)) for v, x in t['attr_bits']) + '].')
    L.append('(* status code received -> code carried by the exception the client constructs *)')
    L.append('Definition gen_client_error_code : list (Z * Z) := ' + clist(t['client_err'], lambda p: '(%d, %d)' % p) + '.')
    L.append('(* SFTPHandler._return_types: request -> reply type other than STATUS *)')
    L.append('Definition gen_return_types_int : list (Z * Z) := ' + clist(t['rt_int'], lambda p: '(%d, %d)' % p) + '.')
    L.append('Definition gen_return_types_ext : list (bytes * Z) := ' + clist(t['rt_ext'], lambda p: '(%s, %d)' % (zl(p[0]), p[1])) + '.')
    L.append('Definition gen_return_types_available : bool := %s.' % cbool(t['rt_available']))
    return '\n'.join(L) + '\n'


async def build_tables():
    import asyncssh
    sftp = _sftp()
    state = {}
    listener, conn = await sshutil.loopback(srv_kw={'sftp_factory': make_scripted_server(state), 'sftp_version': 6})
    t = {'errno': [], 'sftp': [], 'handled': [], 'attr_bits': []}
    try:
        sessions = {}
        for v in VERSIONS:
            rs = RawSession(conn, state)
            if await rs.start(v) != v:
                raise RuntimeError('server did not negotiate version %d' % v)
            sessions[v] = rs

        async def status_for(v, script):
            pkt = bytes([17]) + u32(7) + sstr(b'p') + (u32(0) if v >= 4 else b'')       # FXP_STAT
            got, closed = await sessions[v].request(pkt, script)
            rr = [parse_reply(x) for x in got]
            if closed or len(rr) != 1 or rr[0][2][0] != 'status':
                return -1
            return rr[0][2][1]
        for e in [None] + list(range(0, 160)):
            codes = [await status_for(v, ('os', e)) for v in VERSIONS]
            t['errno'].append((-1 if e is None else e, errno_sym(e), codes))
        for c in list(range(0, 48)) + [100, 255, 65536, 2 ** 32 - 1]:
            t['sftp'].append((c, [await status_for(v, ('sftp', c)) for v in VERSIONS]))
        for v in VERSIONS:
            handled = []
            for ty in range(256):
                if ty in (200, SENTINEL_TYPE):
                    continue
                got, closed = await sessions[v].request(bytes([ty]) + u32(9), 'ok')
                rr = [parse_reply(x) for x in got]
                if not (len(rr) == 1 and rr[0][2] == ('status', 8)):
                    handled.append(ty)
            t['handled'].append((v, handled))
        for rs in sessions.values():
            rs.close()
    finally:
        conn.close()
        listener.close()
        await listener.wait_closed()
    for v in VERSIONS:
        bits = []
        for k in range(32):
            try:
                sftp.SFTPAttrs.decode(_packet(u32(1 << k) + b'\0' * 96), v)
                bits.append(k)
            except asyncssh.SFTPBadMessage:
                pass
            except Exception:
                bits.append(k)
        t['attr_bits'].append((v, bits))
    t['client_err'] = []
    for c in range(0, 48):
        try:
            exc = sftp.SFTPError.construct(_packet(u32(c) + sstr(b'r') + sstr(b'')), 'strict')
            t['client_err'].append((c, 0 if exc is None else int(exc.code)))
        except Exception:
            t['client_err'].append((c, -1))
    rt = getattr(getattr(sftp, 'SFTPHandler', None), '_return_types', None)
    t['rt_int'] = sorted((k, x) for k, x in (rt or {}).items() if isinstance(k, int))
    t['rt_ext'] = sorted((k, x) for k, x in (rt or {}).items() if isinstance(k, bytes))
    t['rt_available'] = rt is not None
    return t


LIVE_THEOREMS = r"""
Theorem live_errno : errno_table_ok gen_errno_status = true. Proof. vm_compute. reflexivity. Qed.
Theorem live_sftp : sftp_table_ok gen_sftp_status = true. Proof. vm_compute. reflexivity. Qed.
Theorem live_handled : handled_table_ok gen_handled_types = true. Proof. vm_compute. reflexivity. Qed.
Theorem live_attr_bits : attr_bits_table_ok gen_accepted_attr_bits = true. Proof. vm_compute. reflexivity. Qed.
Theorem live_client_err : client_err_table_ok gen_client_error_code = true. Proof. vm_compute. reflexivity. Qed.
Theorem live_rt : return_types_table_ok gen_return_types_available gen_return_types_int gen_return_types_ext = true. Proof. vm_compute. reflexivity. Qed.
"""


def stage_tables(ctx):
    """Regenerate coq/Gen/SftpTables.v from the running code.  In a normal run the file is rewritten when its
    content changed (the theorems of Props/C14.v are then re-checked against the new tables by ctx.prove()).
    In a scratch run (ASYNCSSH_VERIF_OUT set) the shared tree is left alone and, when the live tables differ
    from the file, the same table theorems are re-proved over the live tables in a side file."""
    t = sshutil.run(build_tables())
    ctx.tables = t
    text = table_text(t)
    path = os.path.join(core.COQ, 'Gen', 'SftpTables.v')
    old = open(path).read() if os.path.exists(path) else None
    ctx.cov['gen_tables'] = {'errno_rows': len(t['errno']), 'sftp_rows': len(t['sftp']),
                             'types_probed_per_version': 254, 'return_types_available': t['rt_available']}
    if not t['rt_available']:
        ctx.cov['gen_tables']['note'] = 'SFTPHandler._return_types not found; return types tied by the server/client sessions only'
    if old == text:
        ctx.cov['gen_tables']['state'] = 'identical to coq/Gen/SftpTables.v'
        return
    if core.OUT == core.VERIF and os.path.realpath(core.REPO) == os.path.realpath('/repo'):
        with core.CoqLock():
            tmp = path + '.tmp%d' % os.getpid()
            with open(tmp, 'w') as f:
                f.write(text)
            os.replace(tmp, path)
        ctx.cov['gen_tables']['state'] = 'coq/Gen/SftpTables.v rewritten from the running code'
        ctx.log('Gen/SftpTables.v rewritten (tables changed)')
        return
    # scratch run: prove the table theorems over the live tables without touching the shared tree
    side = os.path.join(ctx.work, 'LiveTables.v')
    with open(side, 'w') as f:
        f.write(text.replace('From AV Require Import Base.Prelude.',
                             'From AV Require Import Base.Prelude Model.SftpProto.') + LIVE_THEOREMS)
    rc, out, _ = core.coqc_file(side, 300)
    ctx.cov['gen_tables']['state'] = 'live tables differ from coq/Gen/SftpTables.v; table theorems re-checked in a side file'
    if rc != 0:
        ctx.broke('proof:table-theorems-on-live-tables', out[-1500:])


def oracle_tables(ctx):
    """Direct oracle on the implementation's own tables: every local error maps to the documented status
    code for the negotiated version, and every code sent is one that version defines."""
    t = ctx.tables
    for e, sym, codes in t['errno']:
        name = ERRNO_NAMES[sym - 1] if sym else None
        want_code = DOC_ERRNO_CODE.get(name, 4)
        for v, got in zip(VERSIONS, codes):
            ctx.cov['evaluations'] += 1
            want = doc_status(v, want_code)
            if got != want or MIN_VERSION(got) > v:
                ctx.failing_input(
                    f'OSError(errno={e} {name or ""}) raised by the application is reported to an SFTPv{v} client as status '
                    f'{got}, documented mapping gives {want}',
                    {'kind': 'errno_status', 'errno': e, 'version': v, 'got': got, 'want': want})
    for c, codes in t['sftp']:
        for v, got in zip(VERSIONS, codes):
            ctx.cov['evaluations'] += 1
            want = doc_status(v, c)
            if got != want or (got <= 31 and MIN_VERSION(got) > v):
                ctx.failing_input(
                    f'SFTPError(code={c}) raised by the application is reported to an SFTPv{v} client as status {got}, '
                    f'expected {want}',
                    {'kind': 'sftp_status', 'code': c, 'version': v, 'got': got, 'want': want})
    for c, got in t['client_err']:
        if got != c:
            ctx.failing_input(f'status code {c} received by the client becomes an exception carrying code {got}',
                              {'kind': 'client_error_code', 'code': c, 'got': got})


# =============================================================================================
# Stage D: server - one reply per request

EXT = {n: n.encode() for n in ('posix-rename@openssh.com', 'statvfs@openssh.com', 'fstatvfs@openssh.com',
                               'hardlink@openssh.com', 'fsync@openssh.com', 'lsetstat@openssh.com',
                               'limits@openssh.com', 'copy-data', 'ranges@asyncssh.com')}
RETURN_TYPE = {3: 102, 5: 103, 7: 105, 8: 105, 11: 102, 12: 104, 16: 104, 17: 105, 19: 104,
               b'statvfs@openssh.com': 201, b'fstatvfs@openssh.com': 201, b'limits@openssh.com': 201,
               b'ranges@asyncssh.com': 201}
INT_KINDS = list(range(3, 24))
EXT_KINDS = list(EXT.values())


class HState:
    def __init__(self):
        self.files = []
        self.dirs = []
        self.dead_dirs = set()


def valid_body(kind, v, rng, hs, real=0.8):
    """A well-formed body for this request kind (independent restatement of the SFTP drafts / OpenSSH PROTOCOL)."""
    path = rng.choice([b'/a', b'', b'p' * 33, b'\xff'])
    bogus = rng.choice([b'', b'\x00\x00\x00\x63', b'zz', b'\x00\x00\x00'])
    fh = rng.choice(hs.files) if hs.files and rng.random() < real else bogus
    dh = rng.choice(hs.dirs) if hs.dirs and rng.random() < real else bogus
    attrs = W.raw_attrs(rng, v, wild=0.0)
    flags4 = u32(rng.choice([0, 0xfd])) if v >= 4 else b''
    if kind == 3:
        if v >= 5:
            acc = rng.choice([1, 0x81, 0x187, 2, 0x187, 0x20000, 0x187 | 8])
            fl = rng.choice([0, 2, 3, 0xb, 0xf, 0x10, 0x40])
            return sstr(path) + u32(acc) + u32(fl) + attrs
        return sstr(path) + u32(rng.choice([1, 0x1a, 0xffffffff])) + attrs
    if kind == 4:
        return sstr(rng.choice([fh, dh]))
    if kind == 5:
        return sstr(fh) + u64(rng.choice([0, 2 ** 63])) + u32(rng.choice([0, 10, 2 ** 32 - 1]))
    if kind == 6:
        return sstr(fh) + u64(5) + sstr(rng.choice([b'', b'payload']))
    if kind in (7, 17):
        return sstr(path) + flags4
    if kind == 8:
        return sstr(fh) + flags4
    if kind in (9, 14):
        return sstr(path) + attrs
    if kind == 10:
        return sstr(fh) + attrs
    if kind in (11, 13, 15, 19):
        return sstr(path)
    if kind == 12:
        return sstr(dh)
    if kind == 16:
        if v >= 6:
            return sstr(path) + bytes([rng.choice([1, 1, 2, 3, 0, 4, 255])]) + b''.join(
                sstr(rng.choice([b'x', b'/y', b''])) for _ in range(rng.randint(0, 2)))
        return sstr(path)
    if kind == 18:
        return sstr(path) + sstr(b'/new') + (u32(rng.choice([0, 1])) if v >= 5 else b'')
    if kind == 20:
        return sstr(path) + sstr(b'/t')
    if kind == 21:
        return sstr(path) + sstr(b'/t') + bytes([rng.choice([0, 1, 7])])
    if kind == 22:
        return sstr(fh) + u64(0) + u64(10) + u32(rng.choice([0, 0x40]))
    if kind == 23:
        return sstr(fh) + u64(0) + u64(10)
    n = kind
    if n in (EXT['posix-rename@openssh.com'], EXT['hardlink@openssh.com']):
        return sstr(n) + sstr(path) + sstr(b'/new')
    if n == EXT['statvfs@openssh.com']:
        return sstr(n) + sstr(path)
    if n in (EXT['fstatvfs@openssh.com'], EXT['fsync@openssh.com']):
        return sstr(n) + sstr(fh)
    if n == EXT['lsetstat@openssh.com']:
        return sstr(n) + sstr(path) + attrs
    if n == EXT['limits@openssh.com']:
        return sstr(n)
    if n == EXT['copy-data']:
        fh2 = rng.choice(hs.files) if hs.files and rng.random() < real else bogus
        return sstr(n) + sstr(fh) + u64(0) + u64(rng.choice([0, 2, 100])) + sstr(fh2) + u64(0)
    if n == EXT['ranges@asyncssh.com']:
        return sstr(n) + sstr(fh) + u64(0) + u64(rng.choice([1, 100, 2 ** 40, 0]))
    raise AssertionError(kind)


def gen_script(rng):
    r = rng.random()
    if r < 0.5:
        return 'ok'
    if r < 0.58:
        return 'empty'
    if r < 0.72:
        return ('sftp', rng.choice(list(range(1, 32)) + [4, 9, 19, 0, 40, 100]))
    if r < 0.9:
        names = ERRNO_NAMES + ['EPERM', 'EIO', 'EBADF', 'ENOSYS', 'EBUSY']
        return ('os', rng.choice([getattr(errno_mod, n) for n in names if hasattr(errno_mod, n)] + [None, 0, 999]))
    if r < 0.95:
        return 'notimpl'
    return 'other'


def build_request_plan(ctx, v, rng, thorough):
    """List of (label, kind, variant) items; the concrete bytes are made when the item is sent, because
    handles come from earlier replies."""
    plan = []
    kinds = INT_KINDS + EXT_KINDS
    for kind in kinds:
        plan.append(('valid', kind, None))
        plan.append(('valid', kind, None))
        plan.append(('all-truncations' if thorough or rng.random() < 0.35 else 'some-truncations', kind, None))
        plan.append(('extended', kind, None))
        plan.append(('random-body', kind, None))
    for ty in [0, 1, 2, 24, 25, 99, 100, 101, 102, 103, 104, 105, 150, 199, 201, 202, 249, 251, 255]:
        plan.append(('unknown-type', ty, None))
    for name in [b'', b'nope@example.com', b'statvfs@openssh.co', b'statvfs@openssh.com\x00', b'COPY-DATA']:
        plan.append(('unknown-ext', name, None))
    plan.append(('ext-truncated-name', None, None))
    # opens / opendirs early so that handle-based requests find real handles
    head = [('valid-ok', 3, None)] * 3 + [('valid-ok', 11, None)] * 2 + \
           [('valid-ok', k, None) for k in (5, 6, 8, 12, 22, EXT['fstatvfs@openssh.com'], EXT['ranges@asyncssh.com'],
                                            EXT['copy-data'], EXT['fsync@openssh.com'], 5, 12)]
    rng.shuffle(plan)
    return head + plan


def judge_request(v, pkt, script, rr, closed, meta, app_called):
    """The property, evaluated on what the implementation did with one request packet.  Returns None or why."""
    if len(pkt) < 5:
        return None
    kind = meta.get('kind')
    rid = struct.unpack('>I', pkt[1:5])[0]
    legal = (101, RETURN_TYPE.get(kind, 101))
    if closed is True:
        return 'the session ended'
    if closed == 'hang':
        return 'no reply arrived (not even to the following request)'
    if len(rr) != 1:
        return f'{len(rr)} replies were sent'
    if rr[0][1] != rid:
        return f'the reply carries id {rr[0][1]}'
    if rr[0][0] not in legal:
        return f'the reply has type {rr[0][0]}, legal are {legal}'
    body = rr[0][2]
    if meta.get('must_fail') and not (body[0] == 'status' and body[1] != 0):
        return f'a request with a malformed body / unsupported type was answered by {rr[0]}'
    if meta.get('must_fail') and body[1] != meta.get('want_code', body[1]):
        return (f'a request with a malformed body / unsupported type was answered by status {body[1]}, '
                f'the documented code is {meta["want_code"]}')
    if body[0] == 'status' and body[1] <= 31 and MIN_VERSION(body[1]) > v:
        return f'status code {body[1]} is not defined in SFTPv{v}'
    if meta.get('reached') and script not in ('ok', 'empty') and body[0] == 'status' and app_called:
        want = None
        if script[0] == 'os':
            sym = errno_sym(script[1])
            want = doc_status(v, DOC_ERRNO_CODE.get(ERRNO_NAMES[sym - 1], 4) if sym else 4)
        elif script[0] == 'sftp':
            want = doc_status(v, script[1])
        elif script == 'notimpl':
            want = 8
        elif script == 'other':
            want = 4
        if want is not None and body[1] != want:
            return f'application outcome {script!r} was reported as status {body[1]}, documented is {want}'
    return None


async def server_session(ctx, conn, state, v, rng, thorough, cases, stats):
    rs = RawSession(conn, state)
    await rs.start(v)
    hs = HState()
    pkts, obs = [], []
    next_id = [rng.choice([0, 1, 77, 2 ** 31, 2 ** 32 - 40])]
    hang = False

    async def send(pkt, script, meta):
        nonlocal hang
        got, closed = await rs.request(pkt, script)
        if closed == 'hang':
            hang = True
        rr = [parse_reply(x) for x in got]
        pkts.append((pkt, script))
        obs.append(rr)
        ctx.note_case(('srv', v, pkt, script), nontrivial=meta.get('handler', False))
        # ---- direct oracle on this request
        why = judge_request(v, pkt, script, rr, closed, meta, state.get('calls', 0) > meta.get('calls_before', 0))
        if why:
            rid_ = struct.unpack('>I', pkt[1:5])[0]
            keep = [(p, sc) for p, sc in pkts[:-1] if p[:1] in (b'\x03', b'\x0b', b'\x04', b'\x0c')]
            ctx.failing_input(
                f'SFTPv{v} server, request type {pkt[0]} id {rid_} ({meta.get("label")}, application outcome '
                f'{script!r}): {why}; request={pkt.hex()}',
                {'kind': 'server_request', 'version': v, 'prefix': [[p.hex(), _script_json(sc)] for p, sc in keep],
                 'request': pkt.hex(), 'script': _script_json(script),
                 'meta': {k: (x.decode('latin-1') if isinstance(x, bytes) else x) for k, x in meta.items()
                          if k in ('kind', 'must_fail', 'want_code', 'reached', 'label')},
                 'kind_is_ext': isinstance(meta.get('kind'), bytes), 'why': why})
        return rr, closed

    def rid():
        next_id[0] = (next_id[0] + rng.choice([1, 1, 1, 7])) % (2 ** 32)
        if next_id[0] >= SENTINEL_BASE:
            next_id[0] = 5
        return next_id[0]

    def head(kind):
        return (bytes([200]) if isinstance(kind, bytes) else bytes([kind]))

    plan = build_request_plan(ctx, v, rng, thorough)
    for label, kind, _ in plan:
        if rs.closed or hang:
            break
        if label in ('valid', 'valid-ok', 'all-truncations', 'some-truncations', 'extended', 'random-body'):
            body = valid_body(kind, v, rng, hs, real=1.0 if label == 'valid-ok' else 0.8)
            script = 'ok' if label == 'valid-ok' else gen_script(rng)
            if kind == 12 and body[4:] in hs.dead_dirs:
                script = 'empty'
            variants = []
            if label in ('valid', 'valid-ok'):
                variants = [(body, False)]
            elif label == 'all-truncations':
                variants = [(body[:k], True) for k in range(len(body))]
            elif label == 'some-truncations':
                ks = sorted(set([0, 1, 3, 4, len(body) - 1] + [rng.randrange(len(body) + 1) for _ in range(4)]))
                variants = [(body[:k], True) for k in ks if 0 <= k < len(body)]
            elif label == 'extended':
                variants = [(body + bytes(rng.randrange(256) for _ in range(rng.randint(1, 5))), False)]
            else:
                nm = sstr(kind) if isinstance(kind, bytes) else b''
                variants = [(nm + bytes(rng.randrange(256) for _ in range(rng.randint(0, 24))), False)]
            for bb, is_trunc in variants:
                if rs.closed or hang:
                    break
                pkt = head(kind) + u32(rid()) + bb
                # a strict prefix of a well-formed body is malformed unless every dropped byte was optional
                must_fail = is_trunc and _truncation_is_malformed(kind, v, body, bb)
                stats['truncated' if is_trunc else label] = stats.get('truncated' if is_trunc else label, 0) + 1
                meta = {'kind': kind, 'label': label, 'handler': True, 'must_fail': must_fail, 'want_code': 5,
                        'reached': not is_trunc and label in ('valid', 'valid-ok'), 'calls_before': state.get('calls', 0)}
                rr, closed = await send(pkt, script, meta)
                if len(rr) == 1:
                    t, _i, b = rr[0]
                    if kind == 3 and b[0] == 'handle':
                        hs.files.append(b[1])
                    if kind == 11 and b[0] == 'handle':
                        hs.dirs.append(b[1])
                    if kind == 12 and b[0] == 'status' and len(bb) >= 4:
                        hs.dead_dirs.add(bb[4:4 + struct.unpack('>I', bb[:4])[0]])
                    if kind == 4 and not is_trunc and label in ('valid', 'valid-ok'):
                        h = bb[4:]
                        hs.files = [x for x in hs.files if x != h]
                        hs.dirs = [x for x in hs.dirs if x != h]
                    if b[0] == 'status':
                        stats['status.%d' % b[1]] = stats.get('status.%d' % b[1], 0) + 1
                    else:
                        stats['reply.%d' % t] = stats.get('reply.%d' % t, 0) + 1
        elif label == 'unknown-type':
            pkt = bytes([kind]) + u32(rid()) + bytes(rng.randrange(256) for _ in range(rng.randint(0, 12)))
            stats['unknown-type'] = stats.get('unknown-type', 0) + 1
            await send(pkt, gen_script(rng), {'kind': None, 'label': label, 'must_fail': True, 'want_code': 8})
        elif label == 'unknown-ext':
            pkt = bytes([200]) + u32(rid()) + sstr(kind) + rng.choice([b'', sstr(b'/a')])
            stats['unknown-ext'] = stats.get('unknown-ext', 0) + 1
            await send(pkt, gen_script(rng), {'kind': None, 'label': label, 'must_fail': True, 'want_code': 8})
        elif label == 'ext-truncated-name':
            for bb in (b'', b'\x00\x00', b'\x00\x00\x00\x09copy', b'\xff\xff\xff\xff'):
                await send(bytes([200]) + u32(rid()) + bb, 'ok', {'kind': None, 'label': label, 'must_fail': True, 'want_code': 5})
    # the session must still be alive: a final well-formed request gets its reply
    if not rs.closed and not hang:
        pkt = bytes([17]) + u32(0xABCDEF) + sstr(b'/final') + (u32(0) if v >= 4 else b'')
        rr, closed = await send(pkt, 'ok', {'kind': 17, 'label': 'final', 'handler': True})
        stats['final_answered'] = stats.get('final_answered', 0) + (1 if len(rr) == 1 and rr[0][0] == 105 else 0)
        # and a packet too short to carry an id ends the session (nothing can be addressed)
        if rng.random() < 0.5:
            short = rng.choice([b'', b'\x11', b'\x11\x00\x00\x01'])
            rr, closed = await send(short, 'ok', {'label': 'short-frame'})
            stats['short_frame_closed'] = stats.get('short_frame_closed', 0) + (1 if closed is True else 0)
    still_open = not rs.closed and not hang
    rs.close()
    cases.append('(%d, %s, %s, %s)' % (
        v, clist(pkts, lambda ps: '(%s, %s)' % (zl(ps[0]), script_to_coq(ps[1]))),
        clist(obs, lambda rr: clist(rr, reply_to_coq)), cbool(still_open)))
    return len(pkts)


def _script_json(s):
    return list(s) if isinstance(s, tuple) else s


OPTIONAL_TAIL = {}


def _truncation_is_malformed(kind, v, body, bb):
    """Is this strict prefix of a well-formed body certainly malformed?  Not when the dropped bytes were an
    optional tail: SFTPv6 REALPATH compose paths, and bodies whose handler never checks for the end."""
    if isinstance(kind, bytes):
        return True
    if kind == 16 and v >= 6:
        # path + control byte are mandatory; what follows is a list of optional strings
        need = 4 + struct.unpack('>I', body[:4])[0] + 1
        if len(bb) < need:
            return True
        rest = bb[need:]
        try:
            while rest:
                n = struct.unpack('>I', rest[:4])[0]
                if len(rest) < 4 + n:
                    return True
                rest = rest[4 + n:]
            return False
        except struct.error:
            return True
    return True


async def run_server_sessions(ctx):
    rng = ctx.rng
    thorough = ctx.tier == 'thorough'
    cases, stats = [], {}
    total = 0
    rounds = 6 if thorough else 1
    for r in range(rounds):
        for v in VERSIONS:
            # one connection per session: a server that tears the connection down must not hide later sessions
            state = {}
            listener, conn = await sshutil.loopback(srv_kw={'sftp_factory': make_scripted_server(state), 'sftp_version': 6})
            try:
                total += await server_session(ctx, conn, state, v, rng, thorough, cases, stats)
            finally:
                conn.close()
                listener.close()
                await listener.wait_closed()
    return cases, stats, total


def stage_server(ctx):
    cases, stats, total = sshutil.run(run_server_sessions(ctx), timeout=1500)
    for k, n in sorted(stats.items()):
        ctx.count('server.' + k, n)
    ctx.cov['oracle']['server_requests'] = total
    ctx.sample({'server_session': cases[0][:700] + ' ...'})
    bad = ctx.coq_cases('server_sessions', IMPORTS, 'chk_server', cases,
                        ty='Z * list (bytes * bres) * list (list reply) * bool', shard=1)
    report(ctx, 'server_sessions', bad, cases)
    # (status.2 and status.8 occur in most runs but depend on the luck of the seed: not required)
    need = ['truncated', 'extended', 'unknown-type', 'unknown-ext', 'status.5', 'status.4',
            'reply.102', 'reply.103', 'reply.104', 'reply.105', 'reply.201', 'final_answered']
    missing = [k for k in need if not stats.get(k)]
    if missing or stats.get('final_answered', 0) < len(VERSIONS):
        ctx.broke('vacuity:server', f'missing coverage {missing}, stats {stats}')


# =============================================================================================
# Stage C: client - id allocation, routing, reply type check

def _events_json(events):
    out = []
    for e in events:
        if e[0] == 'S':
            out.append(['S', e[1].decode() if isinstance(e[1], bytes) else e[1]])
        elif e[0] == 'R':
            out.append(['R', e[1], e[2], e[3].hex()])
        elif e[0] == 'B':
            out.append(['B', e[1].hex()])
        elif e[0] == 'X':
            out.append(['X', e[1]])
        elif e[0] == 'A':
            out.append(['A', e[1]])
        else:
            out.append(['E'])
    return out


def _events_unjson(events):
    out = []
    for e in events:
        if e[0] == 'S':
            out.append(('S', e[1].encode() if isinstance(e[1], str) else e[1]))
        elif e[0] == 'R':
            out.append(('R', e[1], e[2], bytes.fromhex(e[3])))
        elif e[0] == 'B':
            out.append(('B', bytes.fromhex(e[1])))
        elif e[0] == 'X':
            out.append(('X', e[1]))
        elif e[0] == 'A':
            out.append(('A', e[1]))
        else:
            out.append(('E',))
    return out


def client_oracle(ctx, driver, v, info):
    bad = C.oracle_session(v, info)
    if bad:
        ctx.failing_input(
            f'SFTPv{v} client ({driver}), start id {info["start"]}, events '
            f'{[e[:3] if e[0] == "R" else e for e in info["events"]]!r}: ' + '; '.join(bad[:3]),
            {'kind': 'client_session', 'driver': driver, 'version': v, 'start': info['start'],
             'events': _events_json(info['events'])})
    return bad


def _count_late_replies(info, stats):
    """replies that arrived for the id of a caller cancelled earlier (the case a table clean-up gets wrong)"""
    gone = set()
    for e in info['events']:
        if e[0] == 'X' and 0 <= e[1] < len(info['wire_ids']) and info['wire_ids'][e[1]] is not None:
            gone.add(info['wire_ids'][e[1]])
        elif e[0] == 'R' and e[2] in gone:
            stats['late_reply_to_cancelled'] = stats.get('late_reply_to_cancelled', 0) + 1
            gone.discard(e[2])


async def run_client_mem(ctx, cases, stats):
    rng = ctx.rng
    n = 1500 if ctx.tier == 'thorough' else 260
    for i in range(n):
        v = VERSIONS[i % 4]
        start = 0
        if i % 5 == 0:
            start = 2 ** 32 - rng.randint(1, 4)          # run across the id wrap-around
        plan = C.gen_events(rng, batch=(i % 3 == 0))
        case, info = await C.mem_session(rng, v, start, plan)
        cases.append(case)
        evs = info['events']
        nrep = sum(1 for e in evs if e[0] == 'R')
        ctx.note_case(('client', v, start, tuple(evs)), nontrivial=len(info['tasks']) >= 2 and nrep >= 1)
        for t in info['tasks']:
            stats['caller.' + t.label()] = stats.get('caller.' + t.label(), 0) + 1
        if info['start'] and any(w is not None and w < 8 for w in info['wire_ids']):
            stats['wrapped_sessions'] = stats.get('wrapped_sessions', 0) + 1
        if not info['open']:
            stats['sessions_failed'] = stats.get('sessions_failed', 0) + 1
        _count_late_replies(info, stats)
        # out-of-order: some reply answered a request that was not the oldest outstanding one
        client_oracle(ctx, 'in-memory', v, info)
        if i == 0:
            ctx.sample({'client_session': {'version': v, 'start_id': start, 'events': _events_json(evs)[:8]}})


async def run_client_e2e(ctx, cases, stats):
    rng = ctx.rng
    fake = C.FakeSubsystem()
    listener, conn = await sshutil.loopback(fake.server_factory(), srv_kw={'encoding': None})
    try:
        n = 300 if ctx.tier == 'thorough' else 60
        for i in range(n):
            v = VERSIONS[i % 4]
            plan = C.gen_events(rng, batch=True)
            case, info = await C.e2e_session(rng, conn, fake, v, plan)
            cases.append(case)
            ctx.note_case(('client-e2e', v, tuple(info['events'])), nontrivial=len(info['tasks']) >= 2)
            stats['e2e_sessions'] = stats.get('e2e_sessions', 0) + 1
            _count_late_replies(info, stats)
            if info.get('hung'):
                ctx.failing_input(f'SFTPv{v} client over a real channel: {info["hung"]} callers never completed although the '
                                  f'server closed the channel; events {info["events"]!r}',
                                  {'kind': 'client_session', 'driver': 'e2e', 'version': v, 'start': 0,
                                   'events': _events_json(info['events'])})
            client_oracle(ctx, 'end-to-end', v, info)
            if info.get('hung'):
                break
    finally:
        conn.close()
        listener.close()
        await listener.wait_closed()


STATUS_CLASS = ['OK', 'SFTPEOFError', 'SFTPNoSuchFile', 'SFTPPermissionDenied', 'SFTPFailure', 'SFTPBadMessage',
                'SFTPNoConnection', 'SFTPConnectionLost', 'SFTPOpUnsupported', 'SFTPInvalidHandle', 'SFTPNoSuchPath',
                'SFTPFileAlreadyExists', 'SFTPWriteProtect', 'SFTPNoMedia', 'SFTPNoSpaceOnFilesystem', 'SFTPQuotaExceeded',
                'SFTPUnknownPrincipal', 'SFTPLockConflict', 'SFTPDirNotEmpty', 'SFTPNotADirectory', 'SFTPInvalidFilename',
                'SFTPLinkLoop', 'SFTPCannotDelete', 'SFTPInvalidParameter', 'SFTPFileIsADirectory',
                'SFTPByteRangeLockConflict', 'SFTPByteRangeLockRefused', 'SFTPDeletePending', 'SFTPFileCorrupt',
                'SFTPOwnerInvalid', 'SFTPGroupInvalid', 'SFTPNoMatchingByteRangeLock']     # docs/api.rst, by status code


async def run_status_shapes(ctx, cases, stats):
    """Every status code in the three well-formed wire shapes (code only, as some servers send it; code with empty
    message and language; code with message and language) must reach the right waiter as the SAME documented
    exception class (FX_OK: a normal return), whatever the reply order."""
    codes = list(range(32)) + [32, 99, 2 ** 32 - 1]
    for ci, code in enumerate(codes):
        for v in (VERSIONS if ctx.tier == 'thorough' else [VERSIONS[ci % 4]]):
            shapes = [u32(code), u32(code) + sstr(b'') + sstr(b''), u32(code) + sstr(b'no such thing') + sstr(b'en')]
            fixed = [('S', 13), ('S', 15), ('S', 13),
                     ('R', 101, 2, shapes[0]), ('R', 101, 0, shapes[1]), ('R', 101, 1, shapes[2])]
            case, info = await C.mem_session(None, v, 0, None, fixed=fixed)
            cases.append(case)
            ctx.note_case(('status-shapes', v, code), nontrivial=True)
            stats['status_shape_sessions'] = stats.get('status_shape_sessions', 0) + 1
            bad = list(C.oracle_session(v, info))
            want = STATUS_CLASS[code] if code < len(STATUS_CLASS) else 'SFTPError'
            for w, shape in ((2, 'code only'), (0, 'code + empty strings'), (1, 'code + message + language')):
                t = info['tasks'][w]
                got = t.label()
                if code == 0:
                    ok = got == 'value' and t.result() is None
                else:
                    ok = got == want and getattr(t.exception(), 'code', None) == code
                if not ok:
                    bad.append(f'status code {code} sent as "{shape}" reached caller {w} as {got}'
                               f'{"" if t.exception() is None else " (" + str(t.exception())[:40] + ")"}, documented is '
                               f'{"a normal return" if code == 0 else want}')
            if bad:
                ctx.failing_input(f'SFTPv{v} client, status code {code} in three wire shapes answered out of order: ' + '; '.join(bad[:3]),
                                  {'kind': 'client_session', 'driver': 'in-memory', 'version': v, 'start': 0,
                                   'events': _events_json(info['events']), 'status_code': code})


async def run_client_ends_mem(ctx, cases, stats):
    """Every kind of session end at every position: n requests outstanding, a of them answered first."""
    rng = ctx.rng
    ends = [('E',), ('B', b'\x65')] + [('A', k) for k in C.ABORT_KINDS]
    nmax = 5 if ctx.tier == 'thorough' else 4
    i = 0
    for end in ends:
        for n in range(nmax + 1):
            for a in sorted(set([0, n // 2, n])):
                v = VERSIONS[i % 4]
                i += 1
                order = list(range(n))
                rng.shuffle(order)
                fixed = [('S', rng.choice([13, 15, 17, 3])) for _ in range(n)]
                fixed += [('R', 101, w, u32(2) + sstr(b'gone') + sstr(b'')) for w in order[:a]]
                fixed.append(end)
                case, info = await C.mem_session(None, v, 0, None, fixed=fixed)
                cases.append(case)
                ctx.note_case(('client-end', v, end[0], end[-1] if len(end) > 1 else '', n, a), nontrivial=n - a >= 1)
                stats['end.' + (end[1] if end[0] == 'A' else end[0])] = stats.get('end.' + (end[1] if end[0] == 'A' else end[0]), 0) + 1
                client_oracle(ctx, 'in-memory', v, info)


async def run_client_ends_wire(ctx, stats):
    rng = ctx.rng
    combos = [(n, a) for n in (range(0, 5) if ctx.tier == 'thorough' else (0, 1, 3)) for a in sorted(set([0, n // 2]))]
    i = 0
    for kind in C.WIRE_END_KINDS:
        for n, a in combos:
            v = VERSIONS[i % 4]
            i += 1
            info = await C.wire_end_session(rng, v, n, a, kind)
            ctx.note_case(('client-end-wire', v, kind, n, a), nontrivial=n - a >= 1)
            stats['wire_end.' + kind] = stats.get('wire_end.' + kind, 0) + 1
            for t in info['tasks']:
                stats['wire_end_caller.' + t.label()] = stats.get('wire_end_caller.' + t.label(), 0) + 1
            bad = C.oracle_session(v, info)
            if bad:
                ctx.failing_input(
                    f'SFTPv{v} client over a real connection (MemWire), {n} requests issued, {a} answered, then {kind}: '
                    + '; '.join(bad[:3]),
                    {'kind': 'client_wire_end', 'version': v, 'n': n, 'answered': a, 'end': kind})
                return


def stage_client(ctx):
    cases, stats = [], {}
    try:
        sshutil.run(run_client_mem(ctx, cases, stats), timeout=1500)
    except (TypeError, AttributeError, RuntimeError) as e:
        # the in-memory plumbing relies on asyncssh.sftp.start_sftp_client / SFTPClient._handler
        ctx.cov['oracle']['client_in_memory'] = 'unavailable: ' + repr(e)
        ctx.broke('harness-plumbing:client-in-memory', repr(e))
    try:
        sshutil.run(run_status_shapes(ctx, cases, stats), timeout=1500)
        sshutil.run(run_client_ends_mem(ctx, cases, stats), timeout=1500)
    except (TypeError, AttributeError, RuntimeError) as e:
        ctx.broke('harness-plumbing:client-in-memory', repr(e))
    n_mem = len(cases)
    sshutil.run(run_client_ends_wire(ctx, stats), timeout=1500)
    sshutil.run(run_client_e2e(ctx, cases, stats), timeout=1500)
    for k, x in sorted(stats.items()):
        ctx.count('client.' + k, x)
    ctx.cov['oracle']['client_sessions_in_memory'] = n_mem
    ctx.cov['oracle']['client_sessions_end_to_end'] = len(cases) - n_mem
    bad = ctx.coq_cases('client_sessions', IMPORTS, 'chk_client', cases,
                        ty='Z * Z * list cev * list (hkey * option Z * option (res cval)) * bool', shard=40)
    report(ctx, 'client_sessions', bad, cases)
    need = ['caller.value', 'caller.SFTPBadMessage', 'caller.pending', 'caller.SFTPConnectionLost', 'caller.SFTPNoConnection',
            'caller.cancelled', 'late_reply_to_cancelled', 'status_shape_sessions', 'end.E', 'end.connlost', 'end.disconnect',
            'end.reset', 'wire_end.reset', 'wire_end.fin', 'wire_end.srv_disconnect', 'wire_end.chan_close',
            'wrapped_sessions', 'sessions_failed', 'e2e_sessions']
    missing = [k for k in need if not stats.get(k)]
    if missing:
        ctx.broke('vacuity:client', f'missing coverage {missing}; stats {stats}')


# =============================================================================================
# Stage A2: time stamps with mixed sub-second presence (SFTPv4-6)

TIMES = ('atime', 'crtime', 'mtime', 'ctime')


def time_mix_records(v):
    """Every subset of the time stamps the version carries, and every subset of those carrying `_ns`."""
    names = TIMES if v >= 6 else TIMES[:3]
    out = []
    for pm in range(1 << len(names)):
        present = [n for i, n in enumerate(names) if pm >> i & 1]
        for nm in range(1 << len(present)):
            t = W.blank()
            t[0] = 1
            for j, n in enumerate(present):
                t[W.IDX[n]] = 1700000000 + 10 * j + len(present)
                if nm >> j & 1:
                    t[W.IDX[n + '_ns']] = (123456789, 0, 999999999, 1)[j]
            out.append(tuple(t))
    return out


def time_mix_expected(t):
    """What the peer must see (HEAD's documented behaviour: sub-second times are all-or-nothing on the wire;
    a present time stamp without `_ns` travels with 0 nanoseconds when any other carries them)."""
    sub = any(t[W.IDX[n + '_ns']] is not None for n in TIMES)
    e = list(t)
    for n in TIMES:
        if t[W.IDX[n]] is not None and sub:
            e[W.IDX[n + '_ns']] = t[W.IDX[n + '_ns']] or 0
    return tuple(e)


def times_of(t):
    return {n: (t[W.IDX[n]], t[W.IDX[n + '_ns']]) for n in TIMES if t[W.IDX[n]] is not None or t[W.IDX[n + '_ns']] is not None}


def oracle_time_mix_codec(ctx, v, t):
    enc = impl_attrs_encode(t, v)
    got = impl_attrs_decode(enc + b'\x09', v) if enc not in (None, 'skip') else None
    want = ('ok', (time_mix_expected(t), b'\x09'))
    if got != want:
        ctx.failing_input(
            f'SFTPv{v} attributes with time stamps {times_of(t)!r} (name: (seconds, nanoseconds)) do not survive '
            f'encode/decode: encoded={enc!r}, decoded={got if got is None or got[0] != "ok" else times_of(got[1][0])!r}, '
            f'expected {times_of(time_mix_expected(t))!r}',
            {'kind': 'attrs_time_mix', 'version': v, 'attrs': _jsonable(t)})
        return False
    return True


async def time_mix_sessions(ctx, records, quiet=None):
    """The same records through a real negotiated v4-v6 session: the server's stat() result as the client's
    stat() sees it, and the client's setstat() argument as the server's setstat() receives it."""
    import asyncssh
    state = {}

    class Srv(asyncssh.SFTPServer):
        def stat(self, path):
            return state['attrs']

        def setstat(self, path, attrs):
            state['got'] = attrs
    listener, conn = await sshutil.loopback(srv_kw={'sftp_factory': Srv, 'sftp_version': 6})
    sink = quiet or ctx
    n = 0
    try:
        for v in (4, 5, 6):
            sftp = await conn.start_sftp_client(sftp_version=v)
            for t in records[v]:
                want = times_of(time_mix_expected(t))
                state['attrs'] = W.attrs_to_impl(t)
                for direction in ('stat', 'setstat'):
                    n += 1
                    try:
                        if direction == 'stat':
                            got = times_of(W.attrs_from_impl(await sftp.stat(b'/f')))
                        else:
                            state['got'] = None
                            await sftp.setstat(b'/f', W.attrs_to_impl(t))
                            got = times_of(W.attrs_from_impl(state['got'])) if state['got'] is not None else 'not delivered'
                    except (asyncssh.Error, OSError, ValueError) as e:
                        got = f'{type(e).__name__}({str(e)[:50]})'
                    if got != want:
                        sink.failing_input(
                            f'SFTPv{v} session, {direction} with time stamps {times_of(t)!r}: the peer got {got!r}, expected {want!r}',
                            {'kind': 'attrs_time_mix', 'version': v, 'attrs': _jsonable(t), 'direction': direction})
                        break
            sftp.exit()
    finally:
        conn.close()
        listener.close()
        await listener.wait_closed()
    return n


def stage_time_mix(ctx):
    records = {v: time_mix_records(v) for v in (4, 5, 6)}
    enc_cases = []
    mixed = 0
    for v in (4, 5, 6):
        for t in records[v]:
            oracle_time_mix_codec(ctx, v, t)
            is_mixed = time_mix_expected(t) != t
            mixed += is_mixed
            ctx.note_case(('time-mix', v, t), nontrivial=is_mixed)
            enc_cases.append('(%d, %s, %s)' % (v, W.attrs_to_coq(t), copt(impl_attrs_encode(t, v), zl)))
    n = sshutil.run(time_mix_sessions(ctx, records), timeout=900)
    ctx.cov['oracle']['time_mix_records'] = sum(len(x) for x in records.values())
    ctx.cov['oracle']['time_mix_records_with_mixed_ns'] = mixed
    ctx.cov['oracle']['time_mix_session_roundtrips'] = n
    ctx.cov.setdefault('exhaustive', {})['time_stamp_and_ns_presence_subsets_v4_v5_v6'] = [len(records[v]) for v in (4, 5, 6)]
    report(ctx, 'attrs_time_mix', ctx.coq_cases('attrs_time_mix', IMPORTS, 'chk_attrs_enc', enc_cases,
                                                 ty='Z * attrs * option bytes', shard=300), enc_cases)
    if mixed < 50:
        ctx.broke('vacuity:time_mix', f'only {mixed} mixed records')


# =============================================================================================

def run(ctx):
    ctx.cov['rule'] = (
        'codecs: one attribute record per combination of the presence flags each SFTP version defines (exhaustive in '
        'the thorough tier, sampled in quick) plus seeded records with boundary values, and raw attribute blocks built '
        'field by field with every truncation / extensions / bit flips; client: event lists (send, reply with '
        'valid/unknown/duplicate id and right/wrong type, short frame, EOF) over k outstanding requests; server: raw '
        'requests of every type with truncated / extended / random bodies and scripted application outcomes. '
        'non-trivial = carriable record / block longer than its flags word / session with >= 2 outstanding requests / '
        'request that reaches a handler; distinct = distinct canonical input tuples')
    ctx.cov['trusted_base'] += [
        'SFTP text fields (owner, group, MIME type, status reason) are modelled as their UTF-8 bytes; '
        'Python str<->UTF-8 conversion is modelled by a validity predicate tied by correspondence',
        'the application behind the server (SFTPServer methods) is an adversarial oracle in the model: it may return, '
        'return nothing, or raise SFTPError / OSError / NotImplementedError / any Exception; BaseException '
        '(task cancellation) and failures of the channel write itself are not modelled',
        'str(SFTPAttrs) (evaluated eagerly for the debug log by the open/setstat/fsetstat/lsetstat handlers; raises for '
        'time stamps beyond time.ctime\'s range) is a parameter fmt_ok of the server model: the theorems hold for every '
        'such function, the correspondence instantiates it for this platform (64-bit time_t, TZ=UTC)',
        'client model: waiter cancellation, the version handshake and request_limits are not modelled; reachability of the '
        'id wrap-around is exercised by presetting the private counter _next_pktid (skipped if the attribute is gone)',
        'tables in coq/Gen/SftpTables.v are produced by this driver by probing the running code over their whole finite '
        'domain; the probe itself (scripted SFTPServer over a real loopback connection) is trusted',
        'in-memory client driver uses asyncssh.sftp.start_sftp_client and SFTPClient._handler with a scripted '
        'reader/writer; the end-to-end driver and the server driver use only public API over 127.0.0.1',
    ]
    os.environ['TZ'] = 'UTC'
    import time as _time
    if hasattr(_time, 'tzset'):
        _time.tzset()
    stage_tables(ctx)
    for _attempt in range(4):
        ctx.prove()
        # two runs of this check at the same time can find each other's freshly built .vo ("up to date": no
        # Print Assumptions output); that says nothing about the proofs, so build again
        racy = [b for b in ctx.broken if b['name'].startswith('assumptions-parse') and 'is up to date' in str(b['detail'])]
        if not racy:
            break
        ctx.broken = [b for b in ctx.broken if b not in racy]
    oracle_tables(ctx)
    stage_codecs(ctx)
    stage_time_mix(ctx)
    stage_server(ctx)
    stage_client(ctx)


def oracle_name_roundtrip(ctx, v, n, rest=b'\x01\x02'):
    impl = W.name_to_impl(n)
    if impl is None or not W.py_name_carriable(v, n):
        return None
    try:
        enc = impl.encode(v)
    except Exception:
        enc = None
    got = impl_name_decode(enc + rest, v) if enc is not None else None
    if got != ('ok', (n, rest)):
        ctx.failing_input(f'SFTPv{v} name {n!r} does not survive encode/decode: {enc!r} -> {got!r}',
                          {'kind': 'name_roundtrip', 'version': v, 'filename': n[0].hex(),
                           'longname': None if n[1] is None else n[1].hex(), 'attrs': _jsonable(n[2])})
        return False
    return True


async def replay_server(rp, q):
    v = rp['version']
    state = {}
    listener, conn = await sshutil.loopback(srv_kw={'sftp_factory': make_scripted_server(state), 'sftp_version': 6})
    try:
        rs = RawSession(conn, state)
        await rs.start(v)
        unj = lambda sc: tuple(sc) if isinstance(sc, list) else sc
        for p, sc in rp.get('prefix', []):
            await rs.request(bytes.fromhex(p), unj(sc))
        pkt = bytes.fromhex(rp['request'])
        script = unj(rp['script'])
        meta = dict(rp.get('meta', {}))
        if rp.get('kind_is_ext') and isinstance(meta.get('kind'), str):
            meta['kind'] = meta['kind'].encode('latin-1')
        before = state.get('calls', 0)
        got, closed = await rs.request(pkt, script)
        rr = [parse_reply(x) for x in got]
        why = judge_request(v, pkt, script, rr, closed, meta, state.get('calls', 0) > before)
        print('replies:', rr, 'closed:', closed)
        if why:
            q.failing_input(why, {})
        rs.close()
    finally:
        conn.close()
        listener.close()
        await listener.wait_closed()


async def replay_client(rp, q):
    events = _events_unjson(rp['events'])
    fixed = [e if e[0] != 'B' else ('B', e[1]) for e in events]
    case, info = await C.mem_session(None, rp['version'], rp.get('start', 0), None, fixed=fixed)
    bad = C.oracle_session(rp['version'], info)
    print('callers:', [t.label() for t in info['tasks']], 'ids:', info['wire_ids'], 'open:', info['open'])
    if bad:
        q.failing_input('; '.join(bad), {})


def replay(rp):
    """Re-run one recorded failing input against the current tree; 1 iff it still fails."""
    core.setup_paths()
    kind = rp.get('kind')

    class Quiet:
        def __init__(self):
            self.failed = False

        def failing_input(self, what, replay):
            self.failed = True
            print('still fails:', what)
            return True
    q = Quiet()
    if kind == 'attrs_roundtrip':
        oracle_attrs_roundtrip(q, rp['version'], _unjson(rp['attrs']))
    elif kind == 'attrs_time_mix':
        t = _unjson(rp['attrs'])
        if rp.get('direction'):
            sshutil.run(time_mix_sessions(None, {v: ([t] if v == rp['version'] else []) for v in (4, 5, 6)}, quiet=q))
        else:
            oracle_time_mix_codec(q, rp['version'], t)
    elif kind == 'name_roundtrip':
        n = (bytes.fromhex(rp['filename']), None if rp['longname'] is None else bytes.fromhex(rp['longname']),
             _unjson(rp['attrs']))
        oracle_name_roundtrip(q, rp['version'], n)
    elif kind == 'server_request':
        sshutil.run(replay_server(rp, q))
    elif kind == 'client_session':
        # sessions recorded by the end-to-end driver are replayed on the in-memory driver (same client code)
        sshutil.run(replay_client(rp, q))
    elif kind == 'client_wire_end':
        import random
        info = sshutil.run(C.wire_end_session(random.Random(0), rp['version'], rp['n'], rp['answered'], rp['end']))
        bad = C.oracle_session(rp['version'], info)
        print('callers:', [t.label() for t in info['tasks']])
        if bad:
            q.failing_input('; '.join(bad), {})
    elif kind in ('errno_status', 'sftp_status', 'client_error_code'):
        class T:
            pass
        t = T()
        t.tables = sshutil.run(build_tables())
        t.cov = {'evaluations': 0}
        t.failing_input = lambda what, r: (q.failing_input(what, r) if
                                           (r.get('kind') == kind and all(r.get(k) == rp.get(k) for k in ('errno', 'code', 'version')))
                                           else None)
        oracle_tables(t)
    elif 'no_longer_checks' in rp:
        print('this replay names theorems / correspondences that no longer check:', [b['name'] for b in rp['no_longer_checks']])
        print('re-run ./check C14 to see whether they check now')
        return 2
    else:
        print('unknown replay kind', kind)
        return 2
    print('PASS (the recorded input no longer fails)' if not q.failed else 'FAIL')
    return 1 if q.failed else 0
