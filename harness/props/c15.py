"""C15 - Keys survive every export/import path and interoperate."""
import binascii
import os
import sys

from .. import core
from .. import c15_gen as G
from ..core import copt, cbool, clist
from ..c15_gen import zl, cz

IMPORTS = 'From AV Require Import Base.Prelude Model.DER Model.KeyFmt Corr.C15Corr.'


def _thorough(ctx):
    return ctx.tier == 'thorough'


_JOBS = []


def _corr(ctx, name, checker, cases, ty, shard=300, defs=''):
    """Queue one model-vs-implementation comparison; _flush runs the queued ones concurrently."""
    if not cases:
        ctx.broke('vacuity:' + name, 'no cases generated')
        return
    _JOBS.append((name, checker, cases, ty, shard, defs))


def _run_job(ctx, job):
    import time
    name, checker, cases, ty, shard, defs = job
    t0 = time.time()
    for attempt in range(3):
        nb = len(ctx.broken)
        bad = ctx.coq_cases(name, IMPORTS + defs, checker, cases, ty=ty, shard=shard)
        died = (bad is None and len(ctx.broken) == nb + 1 and
                str(ctx.broken[-1].get('detail', '')).rstrip().endswith('cases file:'))
        if not died or attempt == 2:
            break
        # coqc was killed without output (memory pressure on a loaded machine): not a verdict - run it again
        del ctx.broken[nb:]
        c = ctx.cov['correspondence'].get(name)
        if c:
            c['cases'] -= len(cases)
        ctx.cov['oracle']['coqc_retries'] = ctx.cov['oracle'].get('coqc_retries', 0) + 1
        time.sleep(5)
    ctx.cov.setdefault('timing', {})[name] = round(time.time() - t0, 1)
    if bad:
        ctx.broke('correspondence:' + name, f'{len(bad)} of {len(cases)} cases differ; first: {cases[bad[0]][:1500]}')


def _flush(ctx):
    from concurrent.futures import ThreadPoolExecutor
    jobs = list(_JOBS)
    del _JOBS[:]
    with ThreadPoolExecutor(max_workers=5) as ex:
        list(ex.map(lambda j: _run_job(ctx, j), jobs))


# ---------------------------------------------------------------------------------------------
# stage 1: DER codec

def stage_der(ctx):
    rng = ctx.rng
    m = G.asn1()
    n_val = 2500 if _thorough(ctx) else 260
    enc_cases, good_cases, dec_cases, part_cases = [], [], [], []
    encodings = []
    kinds = {}
    skipped = 0
    for i in range(n_val):
        v = G.gen_value(rng, big=_thorough(ctx) and i % 200 == 0)
        try:
            lit = G.cv(v)
        except G.Unprintable:
            skipped += 1
            continue
        try:
            e = m.der_encode(v)
        except Exception:                      # noqa
            e = None
        enc_cases.append('(%s, %s)' % (lit, copt(e, zl)))
        ctx.count('der.value.' + type(v).__name__)
        if e is None:
            ctx.count('der.encode_refused')
            continue
        encodings.append(e)
        try:
            back = m.der_decode(e)
            ok = (back == v) and type(back) is type(v)
        except RecursionError:
            raise
        except Exception:                      # noqa
            ok = False
        good_cases.append('(%s, %s)' % (lit, cbool(ok)))
        ctx.count('der.roundtrip_ok' if ok else 'der.roundtrip_fails')
        ctx.note_case(('der-value', lit), nontrivial=isinstance(v, (tuple, frozenset, m.TaggedDERObject)))
        if i < 2:
            ctx.sample({'der_value': repr(v)[:300], 'encoding': e.hex()[:200], 'roundtrip': ok})
    for _ in range(60 if _thorough(ctx) else 25):
        v = G.gen_encoder_invalid(rng)
        try:
            e = m.der_encode(v)
        except Exception:                      # noqa
            e = None
        enc_cases.append('(%s, %s)' % (G.cv(v), copt(e, zl)))
        ctx.count('der.encoder_invalid.' + ('refused' if e is None else 'accepted'))
    # decoder: valid encodings, mutated encodings, tiny strings
    strings = list(encodings[:len(encodings) // 2])
    n_mut = 9000 if _thorough(ctx) else 700
    for _ in range(n_mut):
        b = rng.choice(encodings)
        if len(b) > 400:
            continue
        for _ in range(rng.choice([1, 1, 1, 2, 3])):
            b = G.mutate(rng, b)
        strings.append(b)
    strings += [bytes([a]) for a in range(256)] + [b'']
    if _thorough(ctx):
        strings += [bytes([a, b]) for a in range(256) for b in range(256)]
    else:
        strings += [bytes([a, b]) for a in (0x02, 0x04, 0x05, 0x1f, 0x30, 0x31, 0xa0, 0x9f) for b in range(0, 256, 3)]
    strings += [bytes([a, b, c]) for a in (0x01, 0x02, 0x03, 0x06, 0x0c, 0x1f, 0x3f, 0x30) for b in (0, 1, 0x80, 0x81)
                for c in range(0, 256, 5)]
    strings += [G.nested_tags(d) for d in (1, 2, 10, 60)]
    # inputs whose content a class method refuses with its own exception type (BIT STRING with unused bits that are
    # not zero / without data, UTF8String that is not UTF-8), bare and nested: der_decode must say ASN1DecodeError
    targeted = {}
    for inner, cls_ in [(b'\x03\x02\x01\x01', 'bad_bitstring'), (b'\x03\x01\x03', 'bad_bitstring'), (b'\x03\x03\x07\xff\x7f', 'bad_bitstring'),
                        (b'\x0c\x02\xc3\x28', 'bad_utf8'), (b'\x0c\x01\x80', 'bad_utf8'), (b'\x0c\x03\xed\xa0\x80', 'bad_utf8'),
                        (b'\x0c\x04\xf4\x90\x80\x80', 'bad_utf8'), (b'\x0c\x02\xc0\xaf', 'bad_utf8')]:
        for wrapped in (inner, b'\x30' + G._len(len(inner)) + inner, b'\xa0' + G._len(len(inner)) + inner,
                        b'\x31' + G._len(len(inner) + 3) + b'\x02\x01\x05' + inner,
                        b'\x30' + G._len(len(inner) + 4) + b'\xa1' + G._len(len(inner) + 2) + b'\x30' + G._len(len(inner)) + inner):
            targeted[wrapped] = cls_
    strings += list(targeted)
    seen = set()
    for b in strings:
        if b in seen:
            continue
        seen.add(b)
        # direct oracle: on arbitrary bytes der_decode returns a value or raises ASN1DecodeError, nothing else
        try:
            r = m.der_decode(b)
            lit = None
        except m.ASN1DecodeError:
            lit = '(Err DecodeErr)'
        except Exception as e:                 # noqa
            name = type(e).__name__
            ctx.count('der.decode.undocumented.' + name)
            ctx.failing_input(f'der_decode({b.hex()}) raised {name} ({e}) instead of ASN1DecodeError',
                              {'kind': 'der_error_class', 'data': b.hex(), 'exception': name})
            if name not in G.DER_ERR:
                continue
            lit = '(Err %s)' % G.DER_ERR[name]                  # still compared with the model (which says DecodeErr)
        if lit is None:
            try:
                lit = '(Ok %s)' % G.cv(r)
            except G.Unprintable:
                skipped += 1
                continue
        if b in targeted:
            ctx.count('der.decode.targeted.' + targeted[b] + ('.DecodeErr' if lit == '(Err DecodeErr)' else '.other'))
        dec_cases.append('(%s, %s)' % (zl(b), lit))
        ctx.count('der.decode.' + ('accepted' if lit.startswith('(Ok') else lit[5:-1]))
        ctx.note_case(('der-bytes', b), nontrivial=len(b) > 2)
        if len(part_cases) < (3000 if _thorough(ctx) else 500) and len(b) > 1:
            try:
                plit, _ = G.cres(lambda: m.der_decode_partial(b), lambda t: '(%s, %d)' % (G.cv(t[0]), t[1]))
                part_cases.append('(%s, %s)' % (zl(b), plit))
                if plit in ('(Err EncodeErr)', '(Err UnicodeErr)'):
                    ctx.failing_input(f'der_decode_partial({b.hex()}) raised {plit[5:-1]} instead of ASN1DecodeError',
                                      {'kind': 'der_error_class', 'data': b.hex(), 'exception': plit[5:-1], 'api': 'der_decode_partial'})
            except (G.Unprintable, RecursionError):
                pass
    ctx.cov['oracle']['der_skipped_unprintable'] = skipped
    _corr(ctx, 'der_encode', 'chk_der_encode', enc_cases, 'value * option bytes')
    _corr(ctx, 'der_good_roundtrips', 'chk_good_roundtrips', good_cases, 'value * bool')
    _corr(ctx, 'der_decode', 'chk_der_decode', dec_cases, 'bytes * res value')
    _corr(ctx, 'der_decode_partial', 'chk_der_partial', part_cases, 'bytes * res (value * Z)')
    d = ctx.cov['distribution']
    for need in ('der.decode.accepted', 'der.decode.DecodeErr', 'der.decode.targeted.bad_bitstring.DecodeErr',
                 'der.decode.targeted.bad_utf8.DecodeErr', 'der.roundtrip_ok', 'der.roundtrip_fails', 'der.encode_refused' if False else 'der.encoder_invalid.refused'):
        if not d.get(need):
            ctx.broke('vacuity:' + need, 'no generated case reached this class')


def stage_der_deep(ctx):
    """Deep nesting: the model decodes any depth (C15_der_decode_total); the real decoder may instead report
    ASN1DecodeError / KeyImportError once Python's recursion limit is reached (364f43a).  Anything else - in particular
    RecursionError - is a failing input (finding C15-1)."""
    import asyncssh
    m = G.asn1()
    for depth in (100, 300, 600, 2000):
        b = G.nested_tags(depth)
        seq = b'\x30' + G._len(len(b)) + b           # a DER key file starts with a SEQUENCE
        ctx.note_case(('der-deep', depth), nontrivial=True)
        for name, fn, documented in (('der_decode', lambda: m.der_decode(b), ('ASN1DecodeError',)),
                                     ('import_private_key', lambda: asyncssh.import_private_key(seq), ('KeyImportError',)),
                                     ('import_public_key', lambda: asyncssh.import_public_key(seq), ('KeyImportError',))):
            try:
                r = fn()
                out = 'ok'
                if name == 'der_decode':
                    d = 0
                    while isinstance(r, m.TaggedDERObject):
                        r = r.value
                        d += 1
                    if d != depth or r is not None:
                        out = 'wrong-value'
            except Exception as e:             # noqa
                out = type(e).__name__
            ctx.count(f'der.deep{depth}.{name}.{out}')
            if out != 'ok' and out not in documented:
                ctx.failing_input(
                    f'{name} of {depth} nested DER context tags ({len(b)} bytes) gave {out} instead of decoding or raising '
                    f'{documented[0]}', {'kind': 'der_deep_nesting', 'api': name, 'depth': depth, 'outcome': out})
    d = ctx.cov['distribution']
    if not d.get('der.deep100.der_decode.ok') or not d.get('der.deep2000.der_decode.ASN1DecodeError'):
        ctx.cov['oracle']['der_deep_note'] = 'depth limit not between 100 and 2000 on this interpreter'


# ---------------------------------------------------------------------------------------------
# stage 2: base64, armour, format sniffing

B64 = b'ABCDEFGHIJKLMNOPQRSTUVWXYZabcdefghijklmnopqrstuvwxyz0123456789+/'


def _pk():
    import asyncssh.public_key as pk
    return pk


def key_pool(ctx):
    """A few keys of every available type (generated once per run, deterministic order, random material)."""
    import asyncssh
    if hasattr(ctx, '_c15_keys'):
        return ctx._c15_keys
    pool = []
    specs = [('ssh-ed25519', {}), ('ssh-ed448', {}), ('ecdsa-sha2-nistp256', {}), ('ecdsa-sha2-nistp384', {}),
             ('ecdsa-sha2-nistp521', {}), ('ecdsa-sha2-1.3.132.0.10', {}), ('ssh-rsa', {'key_size': 1024}),
             ('ssh-rsa', {'key_size': 2048}), ('ssh-rsa', {'key_size': 1536, 'exponent': 3}), ('ssh-dss', {})]
    missing = []
    for alg, kw in specs:
        try:
            pool.append((alg, kw, asyncssh.generate_private_key(alg, **kw)))
        except Exception as e:                 # noqa
            missing.append(f'{alg}: {type(e).__name__}')
    ctx.cov['oracle']['key_types_available'] = [a + (str(k) if k else '') for a, k, _ in pool]
    ctx.cov['oracle']['key_types_unavailable'] = missing
    if len(pool) < 4:
        ctx.broke('vacuity:key_pool', f'only {len(pool)} key types could be generated: {missing}')
    ctx._c15_keys = pool
    return pool


def gen_b64_text(rng):
    n = rng.choice([0, 1, 2, 3, 4, 5, 6, 7, 8, 11, 12, 13, 30, 64, 65, 100])
    data = bytes(rng.getrandbits(8) for _ in range(n))
    t = bytearray(binascii.b2a_base64(data)[:-1])
    for _ in range(rng.choice([0, 0, 1, 1, 2, 4])):
        k = rng.randrange(9)
        i = rng.randrange(len(t) + 1)
        if k == 0:
            t[i:i] = b'\n'
        elif k == 1:
            t[i:i] = rng.choice([b' ', b'\r\n', b'\t', b'-', b'_', b'.', b'\x00', b'\xff', b'\x80'])
        elif k == 2:
            t[i:i] = b'='
        elif k == 3 and t:
            del t[min(i, len(t) - 1)]
        elif k == 4:
            t[i:i] = bytes([rng.choice(B64)])
        elif k == 5:
            t[i:i] = b'=='
        elif k == 6:
            t = t[:i]
        elif k == 7:
            t += rng.choice([b'=', b'==', b'===', b'A', b'AB', b'ABC', b'A=', b'AB=', b'A==', b'=A'])
        else:
            t[i:i] = b'=\n='
    return bytes(t)


PEM_TYPES = [b'RSA PRIVATE KEY', b'PRIVATE KEY', b'ENCRYPTED PRIVATE KEY', b'OPENSSH PRIVATE KEY', b'EC PRIVATE KEY',
             b'DSA PRIVATE KEY', b'PUBLIC KEY', b'RSA PUBLIC KEY', b'CERTIFICATE', b' X  PRIVATE KEY', b'PRIVATE KEY ',
             b'( PRIVATE KEY', b'A.B PRIVATE KEY', b'X+ PUBLIC KEY', b'[a PRIVATE KEY', b'.* PRIVATE KEY', b'\\ PRIVATE KEY']
HDR_LINES = [b'Proc-Type: 4,ENCRYPTED', b'DEK-Info: AES-128-CBC,00112233445566778899AABBCCDDEEFF', b'DEK-Info: DES-CBC,zz',
             b'Comment: "foo bar"', b'Comment: unquoted', b'Comment: "', b'Comment:""', b'Comment: "a\\', b'b"',
             b'Subject: x\\', b'k:v', b':', b' : ', b'x: "y', b'Comment : " sp "', b' Comment: lead', b'comment: lower',
             b'Proc-Type: 4,ENCRYPTED ', b'Proc-Type:4,ENCRYPTED', b'\\', b'a\\', b'Comment: "x" \\']
BLANKS = [b'', b'', b' ', b'\t', b'\r', b' \r', b'\x0b', b'\x0c']


def gen_text(rng, algs, real_blocks):
    """Random key-file-like text made of plausible lines."""
    lines = []
    for _ in range(rng.randint(1, 9)):
        k = rng.random()
        if k < 0.22:
            ty = rng.choice(PEM_TYPES)
            sp = rng.random() < 0.15
            ln = (b'---- ' if sp else b'-----') + rng.choice([b'BEGIN ', b'BEGIN ', b'BEGIN ', b'END ', b'begin ']) + ty + \
                 (b' ----' if sp else b'-----')
            lines.append(ln + rng.choice([b'', b'', b'', b' ', b'\r', b'x']))
        elif k < 0.34:
            ty = rng.choice(PEM_TYPES)
            lines.append(rng.choice([b'', b'', b' ', b'x']) + b'-----END ' + ty + b'-----' + rng.choice([b'', b'', b' ', b'\t\r', b'x', b' x']))
        elif k < 0.40:
            lines.append(rng.choice([b'---- BEGIN SSH2 PUBLIC KEY ----', b'---- END SSH2 PUBLIC KEY ----',
                                     b'---- BEGIN SSH2 PUBLIC KEY ---- ', b'---- END SSH2 PUBLIC KEY ----  ',
                                     b'---- END SSH2 PUBLIC KEY ---- x', b' ---- BEGIN SSH2 PUBLIC KEY ----']))
        elif k < 0.55:
            lines.append(rng.choice(HDR_LINES))
        elif k < 0.72:
            lines.append(gen_b64_text(rng).replace(b'\n', b''))
        elif k < 0.84:
            lines.append(rng.choice(BLANKS))
        elif k < 0.94:
            alg = rng.choice(algs + [b'ssh-unknown', b'SSH-RSA', b''])
            body = rng.choice([binascii.b2a_base64(bytes(rng.getrandbits(8) for _ in range(rng.choice([0, 5, 20]))))[:-1], b'!!!', b'A', b''])
            cm = rng.choice([b'', b' c', b'  two words ', b'\tx\ty', b' "q"', b' \xff\x00'])
            lines.append(rng.choice([b'', b'', b' ', b'\t ']) + alg + rng.choice([b' ', b' ', b'  ', b'\t']) + body + cm)
        else:
            blk = rng.choice(real_blocks)
            lines += blk.split(b'\n')[:-1] if rng.random() < 0.8 else blk.split(b'\n')[:rng.randint(1, 4)]
    text = b'\n'.join(lines)
    if rng.random() < 0.7:
        text += b'\n'
    if rng.random() < 0.08:
        text = text.replace(b'\n', b'\r\n')
    return text


def cobs(fn, data):
    """Run the real _match_next and print the observation as a Coq term of type C15Corr.obs (None: not modelled)."""
    pk = _pk()
    try:
        fmt, info, end = fn()
    except pk.KeyImportError:
        return 'OImportError'
    except Exception as e:                     # noqa
        name = type(e).__name__
        if name in ('ASN1EncodeError', 'UnicodeDecodeError'):
            return '(ODerError %s)' % G.DER_ERR[name]
        raise
    if fmt == 'der':
        return '(ODer %s %d)' % (G.cv(info[0]), end)
    if fmt == 'pem':
        name, hdrs, d = info
        return '(OPem %s %s %s %d)' % (zl(name), clist(sorted(hdrs.items()), lambda kv: '(%s, %s)' % (zl(kv[0]), zl(kv[1]))), zl(d), end)
    if fmt == 'rfc4716':
        return '(ORfc4716 %s %s %d)' % (copt(info[0], zl), zl(info[1]), end)
    if fmt == 'openssh':
        return '(OOpenSSH %s %s %s %d)' % (zl(info[0]), copt(info[1], zl), zl(info[2]), end)
    return '(ONone %d)' % end


def real_blocks(ctx):
    """Real exports in every text format (used as building blocks of generated files)."""
    out = []
    for alg, kw, key in key_pool(ctx):
        key.set_comment(None)
        for fmt in ('openssh', 'pkcs8-pem', 'pkcs1-pem'):
            try:
                out.append(key.export_private_key(fmt))
            except Exception:                  # noqa  (format not defined for this key type)
                pass
        try:
            out.append(key.export_private_key('pkcs8-pem', passphrase='pw'))
        except Exception:                      # noqa
            pass
        try:
            out.append(key.export_private_key('pkcs1-pem', passphrase='pw', cipher_name='aes128-cbc'))
        except Exception:                      # noqa
            pass
        key.set_comment(b'user@host')
        for fmt in ('openssh', 'rfc4716', 'pkcs8-pem', 'pkcs1-pem'):
            try:
                out.append(key.export_public_key(fmt))
            except Exception:                  # noqa
                pass
    return out


def stage_armour(ctx):
    rng = ctx.rng
    pk = _pk()
    from asyncssh.misc import wrap_base64
    T = _thorough(ctx)
    # base64 encode
    cases = []
    for n in list(range(0, 70)) + [rng.randint(70, 400) for _ in range(40 if T else 8)]:
        d = bytes(rng.getrandbits(8) for _ in range(n))
        cases.append('(%s, %s)' % (zl(d), zl(binascii.b2a_base64(d)[:-1])))
        ctx.note_case(('b2a', d), nontrivial=n > 0)
    _corr(ctx, 'b2a_base64', 'chk_b2a', cases, 'bytes * bytes')
    # base64 decode
    cases = []
    seen = set()
    for _ in range(6000 if T else 500):
        t = gen_b64_text(rng)
        if t in seen:
            continue
        seen.add(t)
        try:
            got = binascii.a2b_base64(t)
            ctx.count('a2b.accepted')
        except binascii.Error:
            got = None
            ctx.count('a2b.rejected')
        cases.append('(%s, %s)' % (zl(t), copt(got, zl)))
        ctx.note_case(('a2b', t), nontrivial=b'=' in t or b'\n' in t)
    _corr(ctx, 'a2b_base64', 'chk_a2b', cases, 'bytes * option bytes')
    # wrap_base64
    cases = []
    for _ in range(300 if T else 60):
        d = bytes(rng.getrandbits(8) for _ in range(rng.choice([0, 1, 2, 3, 47, 48, 49, 52, 53, 96, 105, 300])))
        ty = rng.choice(PEM_TYPES + [b'SSH2 PUBLIC KEY', b''])
        hdrs = rng.choice([b'', b'', b'Comment: "x"\n', b'Proc-Type: 4,ENCRYPTED\nDEK-Info: DES-CBC,00\n\n'])
        space = rng.random() < 0.3
        wrap = rng.choice([64, 70, 70, 1, 4, 76])
        got = wrap_base64(d, ty, hdrs, space, wrap)
        cases.append('(%s, %s, %s, %s, %d, %s)' % (zl(d), zl(ty), zl(hdrs), cbool(space), wrap, zl(got)))
        ctx.note_case(('wrap', d, ty, hdrs, space, wrap), nontrivial=len(d) > wrap)
    _corr(ctx, 'wrap_base64', 'chk_wrap', cases, 'bytes * bytes * bytes * bool * Z * bytes')
    # export_public_key text forms
    cases_o, cases_r = [], []
    for alg, kw, key in key_pool(ctx):
        for cm in (None, b'c', b'user@host two', b' lead', b'trail ', b'"q"', b'a\nb', b'cr\rx', b'\n', b'\xff\x00\x80', b'x' * 100):
            key.set_comment(cm)
            outs = []
            for fmt in ('openssh', 'rfc4716'):
                try:
                    outs.append(key.export_public_key(fmt))
                    ctx.count('export_public.' + fmt + '.written')
                except pk.KeyExportError:
                    outs.append(None)
                    ctx.count('export_public.' + fmt + '.refused')
            cases_o.append('(%s, %s, %s, %s)' % (zl(key.algorithm), zl(key.public_data), copt(cm, zl), copt(outs[0], zl)))
            cases_r.append('(%s, %s, %s)' % (zl(key.public_data), copt(cm, zl), copt(outs[1], zl)))
            ctx.note_case(('export_public', alg, repr(kw), cm), nontrivial=cm is not None)
        key.set_comment(None)
    _corr(ctx, 'export_openssh_public', 'chk_export_openssh_public', cases_o, 'bytes * bytes * option bytes * option bytes')
    _corr(ctx, 'export_rfc4716', 'chk_export_rfc4716', cases_r, 'bytes * option bytes * option bytes')
    # the three text parsers and _match_next
    algs = sorted(set(pk._public_key_alg_map) | set(pk._certificate_alg_map))
    calgs = 'algs'
    adef = '\nDefinition algs : list bytes := %s.' % clist(algs, zl)
    blocks = real_blocks(ctx)
    texts = list(blocks)
    for i in range(len(blocks) - 1):
        texts.append(blocks[i] + blocks[i + 1])
        texts.append(blocks[i][:-1])                                  # no trailing newline
        texts.append(b'junk line\n\n' + blocks[i] + b'  \n\n \n' + blocks[i + 1] + b'trailer')
        texts.append(blocks[i].replace(b'\n', b'\r\n'))
    for _ in range(5000 if T else 320):
        texts.append(gen_text(rng, algs, blocks))
    # DER-looking starts (first byte 0x30): valid values, mutated, followed by text
    m = G.asn1()
    for _ in range(500 if T else 80):
        v = tuple(G.gen_value(rng, 2) for _ in range(rng.randint(0, 3)))
        try:
            b = m.der_encode(v)
        except Exception:                      # noqa
            continue
        if rng.random() < 0.5:
            b = G.mutate(rng, b)
        if b[:1] == b'\x30' and len(b) < 500:
            texts.append(b + rng.choice([b'', b'', b'\n' + blocks[0], b'\x30\x00']))
    c_pem, c_rfc, c_ssh, c_mn = [], [], [], []
    unmodelled = {}
    seen = set()
    for t in texts:
        if t in seen:
            continue
        seen.add(t)
        for keytype, public in ((b'PRIVATE KEY', False), (b'PUBLIC KEY', True), (b'CERTIFICATE', True)):
            if t[:1] == b'\x30' and keytype != b'PRIVATE KEY' and rng.random() < 0.7:
                continue
            try:
                o = cobs(lambda: pk._match_next(t, keytype, public), t)
            except G.Unprintable:
                continue
            except RecursionError:
                continue
            except Exception as e:             # noqa
                unmodelled[type(e).__name__] = unmodelled.get(type(e).__name__, 0) + 1
                ctx.broke('correspondence:match_next', f'unmodelled exception {type(e).__name__}: {e} for {t!r}'[:600])
                continue
            c_mn.append('(%s, %s, %s, %s, %s)' % (calgs, zl(t), zl(keytype), cbool(public), o))
            ctx.count('match_next.' + o.strip('(').split(' ')[0])
            ctx.note_case(('match_next', t, keytype), nontrivial=b'BEGIN' in t or t[:1] == b'\x30')
        if t[:1] != b'\x30' and len(t) < 700 and (T or len(c_pem) < 450):
            try:
                h, d = pk._parse_pem(t)
                got = '(Some (%s, %s))' % (clist(sorted(h.items()), lambda kv: '(%s, %s)' % (zl(kv[0]), zl(kv[1]))), zl(d))
            except pk.KeyImportError:
                got = 'None'
            c_pem.append('(%s, %s)' % (zl(t), got))
            try:
                cm, d = pk._parse_rfc4716(t)
                got = '(Some (%s, %s))' % (copt(cm, zl), zl(d))
            except pk.KeyImportError:
                got = 'None'
            c_rfc.append('(%s, %s)' % (zl(t), got))
            for line in [l for l in t.split(b'\n') if b' ' in l.strip() or rng.random() < 0.1][:2]:
                try:
                    a, cm, d = pk._parse_openssh(line)
                    got = '(Some (%s, %s, %s))' % (zl(a), copt(cm, zl), zl(d))
                    ctx.count('parse_openssh.accepted')
                except pk.KeyImportError:
                    got = 'None'
                c_ssh.append('(%s, %s, %s)' % (calgs, zl(line), got))
    ctx.sample({'match_next_text': repr(texts[len(blocks) + 7])[:300]})
    _corr(ctx, 'match_next', 'chk_match_next', c_mn, 'list bytes * bytes * bytes * bool * obs', shard=150, defs=adef)
    _corr(ctx, 'parse_pem', 'chk_parse_pem', c_pem, 'bytes * option (list (bytes * bytes) * bytes)')
    _corr(ctx, 'parse_rfc4716', 'chk_parse_rfc4716', c_rfc, 'bytes * option (option bytes * bytes)')
    _corr(ctx, 'parse_openssh', 'chk_parse_openssh', c_ssh, 'list bytes * bytes * option (bytes * option bytes * bytes)', defs=adef)
    d = ctx.cov['distribution']
    for need in ('match_next.ODer', 'match_next.OPem', 'match_next.ORfc4716', 'match_next.OOpenSSH', 'match_next.ONone',
                 'match_next.OImportError', 'a2b.accepted', 'a2b.rejected', 'parse_openssh.accepted',
                 'export_public.openssh.written', 'export_public.openssh.refused', 'export_public.rfc4716.refused'):
        if not d.get(need):
            ctx.broke('vacuity:' + need, 'no generated case reached this class')


# ---------------------------------------------------------------------------------------------
# stage 3: openssh-key-v1 container, RFC 1423 padding, PKCS#8/PKCS#1 wrappers

def S(b):
    return len(b).to_bytes(4, 'big') + b


def parse_strings(b):
    out = []
    i = 0
    while i < len(b):
        n = int.from_bytes(b[i:i + 4], 'big')
        out.append(b[i + 4:i + 4 + n])
        i += 4 + n
    return out


def build_container(priv, comment=b'', cipher=b'none', kdf=b'none', kdfdata=b'', nkeys=1, pub=b'', check1=b'\x01\x02\x03\x04',
                    check2=None, pad=None, mac=b'', magic=b'openssh-key-v1\0', block=8, cut=None):
    plain = check1 + (check1 if check2 is None else check2) + priv + S(comment)
    if pad is None:
        pad = bytes(range(1, 1 + (-len(plain)) % block))
    plain += pad
    out = magic + S(cipher) + S(kdf) + S(kdfdata) + nkeys.to_bytes(4, 'big') + S(pub) + S(plain) + mac
    return out if cut is None else out[:cut]


def unarmour(text):
    lines = text.strip().split(b'\n')
    return binascii.a2b_base64(b''.join(lines[1:-1]))


def stage_container(ctx):
    rng = ctx.rng
    pk = _pk()
    import asyncssh
    pool = list(key_pool(ctx))
    # security keys need no hardware to be parsed: built with the harness's own container writer
    edpub = [k for a, _, k in pool if a == 'ssh-ed25519'][0].public_data[-32:]
    ecpub = [k for a, _, k in pool if a == 'ecdsa-sha2-nistp256'][0].public_data[-65:]
    for skalg, pubv in ((G.SK_ED, edpub), (G.SK_EC, ecpub)):
        for flags, app, handle, reserved in ((0x01, b'ssh:', b'\x11' * 48, b''), (0x25, 'ssh:übung'.encode(), b'', b'\x00\x01'),
                                             (0xff, b'', bytes(range(200)), b'r'), (0x00, b'ssh:x', b'h', b'')):
            rec, pubb = G.sk_record(skalg, pubv, app, flags, handle, reserved)
            try:
                pool.append((skalg.decode(), {'flags': flags, 'rec': rec}, asyncssh.import_private_key(G.armour_openssh(G.openssh_container(rec, pubb)))))
            except Exception as e:             # noqa
                ctx.broke('stage_container:sk_import', f'{skalg.decode()} flags {flags:#x}: {type(e).__name__}: {e}')
    layouts = dict(G.SK_LAYOUTS)
    table = {}
    for alg, kw, key in pool:
        a, f, _ = G.parse_record(key.private_data, layouts)
        table[a] = layouts.get(a, [True] * len(f))
    ctable = clist(sorted(table.items()), lambda kv: '(%s, %s)' % (zl(kv[0]), clist(kv[1], cbool)))
    tdef = '\nDefinition ktable : list (bytes * list bool) := %s.' % ctable
    ctx.cov['oracle']['openssh_private_record_layouts'] = {k.decode(): ''.join('S' if x else 'B' for x in v) for k, v in sorted(table.items())}

    def cfield(x):
        return 'FByte %d' % x if isinstance(x, int) else 'FStr %s' % zl(x)
    if getattr(pk, '_bcrypt_available', False):
        ctx.cov['oracle']['container_note'] = 'bcrypt available: encrypted-container cases skipped by the correspondence'
    comments = [b'', b'c', b'user@host', b'a\nb', b'\x00', b'\xff\xfe binary \x00\x01', b' lead and trail ', b'x' * 255, b'y' * 300,
                bytes(range(256))]
    enc_cases, dec_cases, file_cases = [], [], []
    T = _thorough(ctx)
    for alg, kw, key in pool:
        ralg, rfields, _ = G.parse_record(key.private_data, layouts)
        kp = '(%s, %s)' % (zl(ralg), clist(rfields, cfield))
        cms = comments + [bytes(rng.getrandbits(8) for _ in range(rng.randint(1, 40))) for _ in range(6 if T else 2)]
        for cm in cms:
            key.set_comment(cm)
            cont = unarmour(key.export_private_key('openssh'))
            # locate the private section: magic, 3 strings, u32, string pub, string priv
            i = 15
            for _ in range(3):
                i += 4 + int.from_bytes(cont[i:i + 4], 'big')
            i += 4
            i += 4 + int.from_bytes(cont[i:i + 4], 'big')
            check = cont[i + 4:i + 8]
            enc_cases.append('(%s, %s, %s, %s, %s)' % (zl(check), kp, zl(cm), zl(key.public_data), zl(cont)))
            ctx.note_case(('container-encode', alg, repr(kw), cm), nontrivial=len(cm) > 0)
        key.set_comment(None)
        # the same through the file entry points: a key read from a file has a file name but still no comment
        import tempfile
        for cm in (None, b'from file'):
            for ffmt in ('pkcs8-pem', 'openssh'):
                with tempfile.TemporaryDirectory(prefix='c15c-', dir='/var/tmp') as td:
                    path = os.path.join(td, 'id_key_file')
                    key.set_comment(cm)
                    try:
                        key.write_private_key(path, ffmt)
                    except pk.KeyExportError:
                        continue
                    finally:
                        key.set_comment(None)
                    k2 = pk.read_private_key(path)
                    if ffmt != 'openssh' and cm is not None:
                        k2.set_comment(cm)
                    cont = unarmour(k2.export_private_key('openssh'))
                i = 15
                for _ in range(3):
                    i += 4 + int.from_bytes(cont[i:i + 4], 'big')
                i += 4
                i += 4 + int.from_bytes(cont[i:i + 4], 'big')
                file_cases.append('(%s, %s, %s, %s, %s)' % (zl(cont[i + 4:i + 8]), kp, copt(cm, zl), zl(key.public_data), zl(cont)))
                ctx.note_case(('container-encode-file', alg, repr(kw), cm, ffmt), nontrivial=True)
        priv = kw.get('rec', key.private_data)        # security keys: the record as the harness wrote it
        pubd = key.public_data
        variants = [dict(comment=cm) for cm in cms[:6]]
        variants += [
            dict(magic=b'openssh-key-v2\0'), dict(magic=b''), dict(nkeys=0), dict(nkeys=2), dict(nkeys=2 ** 32 - 1),
            dict(check2=b'\x01\x02\x03\x05'), dict(check1=b'\0\0\0\0'), dict(pad=b''), dict(pad=b'\x01\x02\x03\x04\x05\x06\x07\x08\x09'),
            dict(pad=b'\x01\x02\x04'), dict(pad=b'\x00'), dict(pad=bytes(range(1, 256))), dict(pad=bytes(range(1, 256)) + b'\x00'),
            dict(pad=bytes(range(1, 200))), dict(mac=b'trailing-mac-bytes'), dict(pub=pubd), dict(pub=b'garbage'),
            dict(cipher=b'aes256-ctr'), dict(cipher=b'aes256-ctr', kdf=b'bcrypt', kdfdata=S(b'0123456789abcdef') + b'\0\0\0\x10'),
            dict(cipher=b'nosuch-cipher', kdf=b'bcrypt'), dict(cipher=b'', kdf=b''), dict(kdf=b'bcrypt'), dict(kdfdata=b'xyz'),
            dict(priv=S(b'ssh-unknown') + priv[4 + len(parse_strings(priv)[0]):]), dict(priv=b''),
            dict(comment=b'c', block=16), dict(comment=b'cc', block=1),
        ]
        full = build_container(priv)
        variants += [dict(cut=c) for c in sorted(set([0, 14, 15, 18, 19, 23, 30, 40, len(full) - 1, len(full) - 9] +
                                                     [rng.randrange(len(full)) for _ in range(6 if T else 2)]))]
        for var in variants:
            var = dict(var)
            p = var.pop('priv', priv)
            data = build_container(p, **var)
            for pw in ((None, b'pw') if var.get('cipher', b'none') != b'none' else (None,)):
                try:
                    k2 = pk._decode_openssh_private(data, pw, None)
                    got = '(OOk (%s, %s))' % (zl(k2.private_data), zl(k2.get_comment_bytes() or b''))
                    ctx.count('container.decode.ok')
                except pk.KeyEncryptionError:
                    got = '(OErr OEncryptionErr)'
                    ctx.count('container.decode.KeyEncryptionError')
                except pk.KeyImportError:
                    got = '(OErr OImportErr)'
                    ctx.count('container.decode.KeyImportError')
                except ValueError as e:        # key mathematics (cryptography) refused the fields: not modelled
                    ctx.count('container.decode.handler_' + type(e).__name__)
                    continue
                except Exception as e:         # noqa
                    ctx.broke('correspondence:openssh_decode', f'unmodelled exception {type(e).__name__}: {e} for variant {var!r} of {alg}')
                    continue
                if var.get('cipher', b'none') != b'none' and getattr(pk, '_bcrypt_available', False):
                    continue
                dec_cases.append('(ktable, %s, %s, %s)' % (zl(data), copt(pw, zl), got))
                ctx.note_case(('container-decode', alg, repr(kw), repr(sorted(var.items())), pw), nontrivial=True)
    ctx.sample({'container_variant': repr(variants[9]), 'key': pool[0][0]})
    _corr(ctx, 'openssh_encode', 'chk_openssh_encode', enc_cases, 'bytes * kparams * bytes * bytes * bytes', shard=60)
    _corr(ctx, 'openssh_export_file_key', 'chk_openssh_export_key', file_cases, 'bytes * kparams * option bytes * bytes * bytes', shard=20)
    _corr(ctx, 'openssh_decode', 'chk_openssh_decode', dec_cases,
          'list (bytes * list bool) * bytes * option bytes * ores (bytes * bytes)', shard=100, defs=tdef)
    d = ctx.cov['distribution']
    for need in ('container.decode.ok', 'container.decode.KeyImportError', 'container.decode.KeyEncryptionError'):
        if not d.get(need):
            ctx.broke('vacuity:' + need, 'no generated case reached this class')


class _IdentityCipher:
    def encrypt(self, d):
        return d

    def decrypt(self, d):
        return d


def stage_pkcs(ctx):
    rng = ctx.rng
    pk = _pk()
    m = G.asn1()
    T = _thorough(ctx)
    # RFC 1423 padding around an identity cipher
    try:
        import asyncssh.pbe as pbe
        pad = pbe._RFC1423Pad.__new__(pbe._RFC1423Pad)
        pad._cipher = _IdentityCipher()
        pad._block_size = 8
        pad.encrypt(b'x')
    except Exception as e:                     # noqa  internal layout changed: not an alarm
        pad = None
        ctx.cov['oracle']['rfc1423_pad'] = f'unavailable ({type(e).__name__})'
    if pad is not None:
        c_pad, c_unpad = [], []
        for bs in (8, 16, 1):
            pad._block_size = bs
            for n in list(range(0, 35)) + [rng.randint(35, 300) for _ in range(5)]:
                d = bytes(rng.getrandbits(8) for _ in range(n))
                e = pad.encrypt(d)
                c_pad.append('(%d, %s, %s)' % (bs, zl(d), zl(e)))
                inputs = [e, e[:-1], d, e + b'\x00']
                if e:
                    x = bytearray(e)
                    x[-1] = rng.choice([0, 1, 2, bs, bs + 1, 255, x[-1] ^ 1])
                    inputs.append(bytes(x))
                    x = bytearray(e)
                    x[max(0, len(x) - 2)] ^= 1
                    inputs.append(bytes(x))
                for i in inputs:
                    try:
                        got = pad.decrypt(i)
                        ctx.count('rfc1423.unpad.ok')
                    except pbe.KeyEncryptionError:
                        got = None
                        ctx.count('rfc1423.unpad.rejected')
                    c_unpad.append('(%d, %s, %s)' % (bs, zl(i), copt(got, zl)))
                    ctx.note_case(('unpad', bs, i), nontrivial=True)
        _corr(ctx, 'rfc1423_pad', 'chk_rfc1423_pad', c_pad, 'Z * bytes * bytes')
        _corr(ctx, 'rfc1423_unpad', 'chk_rfc1423_unpad', c_unpad, 'Z * bytes * option bytes')
    # PBKDF2-params with the OPTIONAL keyLength / prf fields
    try:
        import asyncssh.pbe as pbe
        import hashlib
        prf_map = {tuple(int(x) for x in o.value.split('.')): h for o, h in pbe._pbes2_prf.items()}
        fn = pbe._pbes2_pbkdf2
    except Exception as e:                     # noqa
        prf_map = None
        ctx.cov['oracle']['pbkdf2_params'] = f'unavailable ({type(e).__name__})'
    if prf_map:
        OIDc = m.ObjectIdentifier
        prfs = [OIDc('.'.join(map(str, o))) for o in sorted(prf_map)]
        pdef = '\nDefinition prfs : list (list Z) := %s.' % clist(sorted(prf_map), lambda o: clist(o, str))
        salts = [b'saltsalt', b'', b'\x00' * 20]
        tails = [(), (16,), (24,), (5,), (b'x',), (None,)]     # (a 1-byte key would not identify the PRF)
        prft = [(), ((prfs[0], None),), ((prfs[-1], None),), ((prfs[2], 5),), ((OIDc('1.2.3'), None),), ((prfs[1],),), ((prfs[1], None, None),),
                (prfs[1],), (b'x',), ((prfs[3], None), 7), ((b'o', None),)]
        c_kdf = []
        for salt in salts:
            for cnt in (1, 2, True, b'1'):
                for t in tails:
                    for pt in prft:
                        if rng.random() < (0.0 if T else 0.55):
                            continue
                        params = [(salt, cnt) + t + pt]
                        for kp_ in ([params] if rng.random() < 0.9 else [params + [(b's', 1)], [], [b'x'], [(salt,)]]):
                            try:
                                keyb = fn(list(kp_), b'pw', 16)
                                sz = len(keyb)
                                name = [o for o, h in prf_map.items()
                                        if hashlib.pbkdf2_hmac(h, b'pw', salt, int(cnt), sz) == keyb]
                                got = '(Some (%d, %s))' % (sz, clist(name[0], str)) if name else None
                                ctx.count('pbkdf2_params.accepted')
                            except pbe.KeyEncryptionError:
                                got = 'None'
                                ctx.count('pbkdf2_params.rejected')
                            except Exception as e:     # noqa
                                ctx.broke('correspondence:pbkdf2_params', f'unmodelled exception {type(e).__name__}: {e} for {kp_!r}'[:400])
                                continue
                            if got is None:
                                ctx.broke('correspondence:pbkdf2_params', f'derived key matches no registered PRF for {kp_!r}'[:400])
                                continue
                            c_kdf.append('(prfs, 16, %s, %s)' % (clist(kp_, G.cv), got))
                            ctx.note_case(('pbkdf2-params', repr(kp_)), nontrivial=True)
        _corr(ctx, 'pbkdf2_params', 'chk_pbkdf2_params', c_kdf, 'list (list Z) * Z * list value * option (Z * list Z)', defs=pdef)
        d = ctx.cov['distribution']
        if not d.get('pbkdf2_params.accepted') or not d.get('pbkdf2_params.rejected'):
            ctx.broke('vacuity:pbkdf2_params', 'accepted and rejected parameter lists are both needed')
    # RSA PKCS#1 / PKCS#8 wrappers
    from asyncssh.rsa import RSAKey
    rsa_keys = [k for a, kw, k in key_pool(ctx) if a == 'ssh-rsa']
    c_exp, c_p1, c_imp = [], [], []
    OID = m.ObjectIdentifier
    for key in rsa_keys:
        pn = key.pyca_key.private_numbers()
        ints = [pn.public_numbers.n, pn.public_numbers.e, pn.d, pn.p, pn.q, pn.dmp1, pn.dmq1, pn.iqmp]
        cints = clist(ints, cz)
        exp = key.export_private_key('pkcs8-der')
        c_exp.append('(%s, %s)' % (cints, zl(exp)))
        p1 = (0,) + tuple(ints)
        inner = m.der_encode(p1)
        rsa_oid = OID('1.2.840.113549.1.1.1')
        wrappers = [
            (0, (rsa_oid, None), inner), (1, (rsa_oid, None), inner), (2, (rsa_oid, None), inner), (True, (rsa_oid, None), inner),
            (False, (rsa_oid, None), inner), (0, (rsa_oid,), inner), (0, (rsa_oid, None, None), inner), (0, (), inner),
            (0, (rsa_oid, 0), inner), (0, (rsa_oid, ()), inner), (0, (OID('1.2.840.113549.1.1.2'), None), inner),
            (0, (OID('1.2.840.10045.2.1'), OID('1.2.840.10045.3.1.7')), inner), (0, (rsa_oid, None), inner, b'attrs'),
            (0, (rsa_oid, None), inner[:-1]), (0, (rsa_oid, None), b''), (0, (rsa_oid, None), m.der_encode(p1[:8])),
            (0, (rsa_oid, None), m.der_encode(p1 + (5, 6))), (0, (rsa_oid, None), m.der_encode((True,) + tuple(ints))),
            (0, (rsa_oid, None), m.der_encode(tuple(ints))), (0, (rsa_oid, None), m.BitString(inner)), (0, rsa_oid, inner),
            ((rsa_oid, None), inner), (b'0', (rsa_oid, None), inner), (0, (b'oid', None), inner), 5, (0, (rsa_oid, None)),
        ]
        for w in wrappers:
            b = m.der_encode(w)
            try:
                k2 = pk._decode_pkcs8_private(m.der_decode(b), True)
                q = k2.pyca_key.private_numbers()
                got = [q.public_numbers.n, q.public_numbers.e, q.d, q.p, q.q, q.dmp1, q.dmq1, q.iqmp]
                ctx.count('pkcs8.import.ok')
            except pk.KeyImportError:
                got = None
                ctx.count('pkcs8.import.KeyImportError')
            except Exception as e:             # noqa
                ctx.broke('correspondence:rsa_pkcs8_import', f'unmodelled exception {type(e).__name__}: {e} for wrapper {w!r}'[:500])
                continue
            c_imp.append('(%s, %s)' % (zl(b), copt(got, lambda l: clist(l, cz))))
            ctx.note_case(('pkcs8-import', b), nontrivial=True)
        trees = [p1, p1[:8], p1 + (7,), (), (1, 2), tuple(ints), (True,) + tuple(ints), p1[:4] + (b'x',) + p1[5:], p1[:4] + (None,) + p1[5:],
                 list(p1) and tuple(reversed(p1)), 5, b'bytes', (0, True, False, 1, 2, 3, 4, 5, 6), frozenset([1, 2])]
        for t in trees:
            r = RSAKey.decode_pkcs1_private(t)
            c_p1.append('(%s, %s)' % (G.cv(t), copt(r, lambda l: clist([int(x) for x in l], cz))))
            ctx.note_case(('pkcs1-decode', repr(t)[:80]), nontrivial=True)
    if not rsa_keys:
        ctx.broke('vacuity:rsa_keys', 'no RSA key in the pool')
        return
    _corr(ctx, 'rsa_pkcs8_export', 'chk_rsa_pkcs8_export', c_exp, 'list Z * bytes')
    _corr(ctx, 'rsa_pkcs1_decode', 'chk_rsa_pkcs1_decode', c_p1, 'value * option (list Z)')
    _corr(ctx, 'rsa_pkcs8_import', 'chk_rsa_pkcs8_import', c_imp, 'bytes * option (list Z)')
    d = ctx.cov['distribution']
    for need in ('pkcs8.import.ok', 'pkcs8.import.KeyImportError'):
        if not d.get(need):
            ctx.broke('vacuity:' + need, 'no generated case reached this class')


# ---------------------------------------------------------------------------------------------
# failing inputs are collected, grouped, and reported once per group (the sweep is a product space:
# one defect shows up in many cells)

def _group(rp):
    k = rp.get('kind', '?')
    if k in ('der_deep_nesting', 'der_recursion'):
        return 'der_deep_nesting'
    if k == 'line_endings':
        return 'line_endings ' + str(rp.get('rewrite'))
    if k == 'security_key':
        return 'security_key ' + str(rp.get('alg'))
    if k == 'container_writer':
        return 'container_writer ' + str(rp.get('writer'))
    if k == 'optional_fields':
        v = rp.get('variant', '')
        return 'optional_fields ' + ('pbes2 keyLength' if 'keyLength=present' in v else 'pbes2' if v.startswith('pbes2') else
                                     'ECPrivateKey optional publicKey/parameters' if 'ECPrivateKey' in v else v)
    if k == 'file_entry_point':
        return 'file_entry_point %s %s comment:%s' % (rp.get('api'), rp.get('format'), 'none' if rp.get('comment') is None else 'set')
    if k == 'der_error_class':
        return 'der_error_class ' + str(rp.get('exception'))
    if rp.get('opts', {}).get('pbe_version') == 1 and \
            k in ('private_cross_type_passphrase', 'pyca_read_private', 'openssl_write_private'):
        return 'pkcs12_pbe_passphrase'
    parts = [k]
    for f in ('format', 'api', 'encoding', 'm'):
        if rp.get(f) is not None:
            parts.append(str(rp[f]))
    if k in ('public_comment_hard', 'public_roundtrip', 'private_roundtrip') and rp.get('comment') is not None:
        c = rp['comment']
        cls = ('newline' if '\n' in c else 'edge-whitespace' if c != c.strip() else 'quote' if c.strip('"') != c else
               'control' if any(ord(ch) < 32 for ch in c) else 'backslash' if c.endswith('\\') else 'plain')
        parts.append('comment:' + cls)
    if rp.get('opts', {}).get('pbe_version') == 1:
        parts.append('pbes1')
    if rp.get('passphrase_is_bytes') is not None and rp.get('passphrase') is not None:
        parts.append('pw-bytes' if rp['passphrase_is_bytes'] else 'pw-str')
    return ' '.join(parts)


class Collector:
    def __init__(self, ctx):
        self.ctx = ctx
        self.real = ctx.failing_input
        self.groups = {}
        ctx.failing_input = self.collect

    def collect(self, what, rp):
        g = _group(rp)
        self.groups.setdefault(g, []).append((what, rp))
        return True

    def emit(self):
        ctx = self.ctx
        ctx.failing_input = self.real
        summary = {}
        order = sorted(self.groups, key=lambda g: (g.startswith('der_deep') or g.startswith('der_recursion'), 'CR only' in g, g))
        def is_known(rp):
            return any(k.get('status') == 'known' and core.finding_matches(k, dict(rp, property=ctx.pid)) for k in ctx.known)
        for g in order:
            items = self.groups[g]
            summary[g] = len(items)
            # every case is tested against the known findings on its own; what does not match one is reported
            parts = ([(w, dict(r, group=g)) for w, r in items if is_known(dict(r, group=g))],
                     [(w, dict(r, group=g)) for w, r in items if not is_known(dict(r, group=g))])
            for part in parts:
                if not part:
                    continue
                algs = sorted({str(rp.get('alg')) for _, rp in part})
                what, rp = part[0]
                rp = dict(rp, cases_in_group=len(part), key_types_in_group=algs)
                ctx.failing_input(f'[{g}: {len(part)} case(s), key types {", ".join(algs)}] {what}', rp)
        ctx.cov['oracle']['failing_groups'] = summary
        for g in order:
            ctx.log(f'failing group: {g}  x{summary[g]}  e.g. {self.groups[g][0][0][:260]}')


# ---------------------------------------------------------------------------------------------

def run(ctx):
    ctx.cov['rule'] = (
        'DER: random value trees over the whole universe of asn1.py (edge integers, lengths around 127/128/255/256/64K, '
        'tags around 30/31/32/127/128, OIDs incl. first arcs >= 128, sets, strings incl. astral code points) plus '
        'encoder-invalid values; decoder: valid encodings, 1-3 structural/byte mutations of them, all 0/1-byte strings, '
        'a grid of 2/3-byte strings. Armour: base64 with junk/padding variants, PEM/RFC4716/OpenSSH text with header, '
        'continuation, CRLF, blank-line and missing-footer variants, several blocks per file. Container: '
        'openssh-key-v1 built field by field with each field mutated. Sweep: every key type x private/public format x '
        'cipher x hash x PBE version x passphrase x comment. A case is non-trivial when it is nested/structured, '
        'encrypted, carries a comment or is a mutation; distinct = distinct (stage, input) tuples')
    ctx.cov['trusted_base'] += [
        'binascii (base64), re (footer search: the header text is escaped since 25a6765 and matched literally in the model; '
        'the multi-line/whitespace semantics of the pattern are modelled by find_footer), os.urandom',
        'ciphers, KDFs (PBKDF1/2, PKCS#12 KDF, bcrypt), hashes and the key mathematics of cryptography/OpenSSL are '
        'parameters of the container theorems (Section variables with dec k (enc k x) = x) and are exercised only by '
        'the implementation sweep',
        'Python str <-> UTF-8 and the str->int parsing of ObjectIdentifier components are not modelled (a str is '
        'represented by its UTF-8 bytes, an OID by its integer components)',
        'encrypted OpenSSH-format private keys are NOT covered: bcrypt is not installed in this environment',
        'ssh-keygen (OpenSSH 9.2) and the cryptography (PyCA) loaders are the independent implementations of the '
        'interoperability oracle and are trusted as references',
    ]
    ctx.prove()
    col = Collector(ctx)
    import threading
    for st in (stage_der, stage_der_deep, stage_armour, stage_container, stage_pkcs):
        try:
            st(ctx)
        except Exception as e:                 # noqa  keep going: the sweep below still looks for a failing input
            import traceback
            ctx.broke('stage-exception:' + st.__name__, traceback.format_exc()[-1500:])
        ctx.log('generated', st.__name__)
    t = threading.Thread(target=_flush, args=(ctx,))
    t.start()                      # model evaluation (coqc) runs while the implementation sweep runs
    try:
        from .. import c15_sweep
        with __import__('warnings').catch_warnings():
            __import__('warnings').simplefilter('ignore')
            c15_sweep.run_sweep(ctx, key_pool(ctx))
        ctx.log('implementation sweep finished')
    finally:
        t.join()
        ctx.log('correspondence evaluated')
        col.emit()


class _ReplayCtx:
    """Minimal stand-in for core.Ctx used to re-run one cell of the sweep."""
    tier = 'quick'

    def __init__(self):
        import random
        self.rng = random.Random('replay')
        self.failed = []
        self.cov = {'oracle': {}, 'distribution': {}}

    def count(self, *a, **k):
        pass

    def note_case(self, *a, **k):
        pass

    def sample(self, *a, **k):
        pass

    def log(self, *a):
        print(*a)

    def broke(self, name, detail):
        print('BROKEN', name, detail)

    def failing_input(self, what, rp):
        self.failed.append((what, rp))
        return True


def _latin(x, is_bytes):
    if x is None:
        return None
    return x.encode('latin-1') if is_bytes else x


def replay(rp):
    core.setup_paths()
    import asyncssh
    import shutil
    import tempfile
    import warnings
    from .. import c15_sweep as SW
    m = G.asn1()
    kind = rp.get('kind')
    if kind == 'der_deep_nesting':
        b = G.nested_tags(rp['depth'])
        if rp['api'] != 'der_decode':
            b = b'\x30' + G._len(len(b)) + b
        fn = {'der_decode': m.der_decode, 'import_private_key': asyncssh.import_private_key,
              'import_public_key': asyncssh.import_public_key}[rp['api']]
        try:
            fn(b)
        except Exception as e:                 # noqa
            good = type(e).__name__ == ('ASN1DecodeError' if rp['api'] == 'der_decode' else 'KeyImportError')
            print('raises', type(e).__name__)
            return 0 if good else 1
        print('decodes')
        return 0
    if kind == 'der_error_class':
        fn = m.der_decode_partial if rp.get('api') == 'der_decode_partial' else m.der_decode
        try:
            fn(bytes.fromhex(rp['data']))
        except m.ASN1DecodeError:
            print('raises ASN1DecodeError')
            return 0
        except Exception as e:                 # noqa
            print('still raises', type(e).__name__)
            return 1
        print('decodes')
        return 0
    if kind == 'der_recursion':
        try:
            m.der_decode(bytes.fromhex(rp['data']))
        except RecursionError:
            return 1
        except Exception:                      # noqa
            return 0
        return 0
    if kind == 'security_key':
        try:
            text = bytes.fromhex(rp['data'])
            want = G.read_openssh_container(text, G.SK_LAYOUTS)
            got = G.read_openssh_container(asyncssh.import_private_key(text).export_private_key('openssh'), G.SK_LAYOUTS)
            bad = [f for f in ('alg', 'fields', 'comment', 'pub') if got[f] != want[f]]
            print('fields that differ after import -> export:', bad, got['fields'] if bad else '')
            return 1 if bad else 0
        except Exception as e:                 # noqa
            print('still fails:', type(e).__name__, e)
            return 1
    if kind == 'line_endings' and rp.get('data') and rp.get('format') != 'list':
        try:
            (asyncssh.import_private_key if rp.get('which') == 'private' else asyncssh.import_public_key)(bytes.fromhex(rp['data']))
            print('imports')
            return 0
        except Exception as e:                 # noqa
            print('still fails:', type(e).__name__, e)
            return 1
    if kind == 'container_writer':
        try:
            k2 = asyncssh.import_private_key(bytes.fromhex(rp['data']))
            same = (k2.get_comment_bytes() or b'') == (rp.get('comment') or '').encode('latin-1')
            print('imports; comment', 'as written' if same else 'differs')
            return 0 if same else 1
        except Exception as e:                 # noqa
            print('still fails:', type(e).__name__, e)
            return 1
    if 'alg' not in rp and kind not in ('private_list', 'public_list'):
        print('replay of kind', kind, 'not supported')
        return 2
    warnings.simplefilter('ignore')
    rctx = _ReplayCtx()
    tmp = tempfile.mkdtemp(prefix='c15r-', dir='/var/tmp')
    try:
        if kind in ('private_list', 'public_list'):
            pool = [(a, {}, asyncssh.generate_private_key(a)) for a in ('ssh-ed25519', 'ecdsa-sha2-nistp256', 'ssh-rsa')]
            SW.check_key_lists(rctx, pool, tmp, rctx.rng)
        else:
            alg, kw = rp['alg'], rp.get('keygen') or {}
            key = asyncssh.generate_private_key(alg, **kw)
            cm = rp.get('comment')
            cm = cm.encode('latin-1') if cm is not None else None
            pw = _latin(rp.get('passphrase'), rp.get('passphrase_is_bytes', False))
            if kind in ('private_roundtrip', 'private_cross_type_passphrase'):
                SW.check_private_roundtrip(rctx, alg, kw, key, rp['format'], rp.get('opts') or {}, pw, cm)
            elif kind in ('public_roundtrip', 'public_comment_hard'):
                SW.check_public_roundtrip(rctx, alg, kw, key, rp['format'], cm, hard=(kind == 'public_comment_hard'))
            elif kind == 'optional_fields':
                try:
                    k2 = asyncssh.import_private_key(bytes.fromhex(rp['data']), pw)
                    same = k2.public_data == asyncssh.import_public_key(bytes.fromhex(rp['ref_pub'])).public_data
                    print('imports; public half', 'as expected' if same else 'DIFFERENT: ' + k2.public_data.hex()[-24:])
                    return 0 if same else 1
                except Exception as e:         # noqa
                    print('still fails:', type(e).__name__, e)
                    return 1
            elif kind == 'file_entry_point':
                SW.check_file_entry_points(rctx, [(alg, kw, key)], tmp)
            elif 'certificate' in kind:
                SW.check_certificates(rctx, [(alg, kw, key)], tmp)
            elif kind.startswith('pyca_'):
                SW.check_pyca(rctx, alg, kw, key, rctx.rng, False)
            elif kind.startswith('openssl_'):
                SW.check_openssl_cli(rctx, [(alg, kw, key)], tmp)
            elif kind.startswith('keygen_'):
                SW.check_ssh_keygen(rctx, [(alg, kw, key)] if kw is not None else [], tmp, rctx.rng, False)
            else:
                print('replay of kind', kind, 'not supported')
                return 2
    finally:
        shutil.rmtree(tmp, ignore_errors=True)
    want = rp.get('group') or _group(rp)
    same = [w for w, r in rctx.failed if _group(r) == want]
    for w in same[:3]:
        print('still fails:', w[:300])
    if not same:
        print('no longer fails (group %s)' % want)
    return 1 if same else 0
