"""C16 - Signatures and certificates verify only when nothing was altered."""
import base64
import hashlib
import ipaddress
import os
import shutil
import tempfile

from .. import core
from .. import c16_lib as L
from ..core import zl, zs, copt, cbool, clist, cz
from ..c16_lib import S, u32, u64

IMPORTS = 'From AV Require Import Base.Prelude Model.Cert Corr.C16Corr.'

KEY_ALGS = ['ssh-ed25519', 'ssh-ed448', 'ecdsa-sha2-nistp256', 'ecdsa-sha2-nistp384', 'ecdsa-sha2-nistp521',
            'ecdsa-sha2-1.3.132.0.10', 'ssh-rsa', 'ssh-dss']
# number of String/MPInt fields of encode_ssh_public, as written in Model/Cert.v cert_alg_table
MODEL_CERT_ALGS = {
    b'ssh-ed25519': (b'ssh-ed25519', 1), b'ssh-ed448': (b'ssh-ed448', 1), b'ssh-rsa': (b'ssh-rsa', 2),
    b'rsa-sha2-256': (b'ssh-rsa', 2), b'rsa-sha2-512': (b'ssh-rsa', 2), b'ssh-dss': (b'ssh-dss', 4),
    b'ecdsa-sha2-nistp256': (b'ecdsa-sha2-nistp256', 2), b'ecdsa-sha2-nistp384': (b'ecdsa-sha2-nistp384', 2),
    b'ecdsa-sha2-nistp521': (b'ecdsa-sha2-nistp521', 2), b'ecdsa-sha2-1.3.132.0.10': (b'ecdsa-sha2-1.3.132.0.10', 2),
    b'sk-ssh-ed25519': (b'sk-ssh-ed25519@openssh.com', 2), b'sk-ecdsa-sha2-nistp256': (b'sk-ecdsa-sha2-nistp256@openssh.com', 3),
}
MODEL_CERT_ALGS = {k + L.CERT_SUFFIX: v for k, v in MODEL_CERT_ALGS.items()}

RSA_HASH = {b'rsa-sha2-256': 'sha256', b'rsa-sha2-512': 'sha512', b'ssh-rsa': 'sha1', b'rsa2048-sha256': 'sha256',
            b'rsa1024-sha1': 'sha1', b'ssh-rsa-sha224@ssh.com': 'sha224', b'ssh-rsa-sha256@ssh.com': 'sha256',
            b'ssh-rsa-sha384@ssh.com': 'sha384', b'ssh-rsa-sha512@ssh.com': 'sha512'}

ADDR_LISTS = [b'10.0.0.0/8', b'1.2.3.4', b'::1', b'10.0.0.0/8,192.168.1.0/24', b'', b'10.0.0.1/8', b'x', b'1.2.3',
              b'\xff', b'10.0.0.0/8,,1.2.3.4', b'fe80::/10']


JOBS = []


def submit(ctx, name, chk, cases, ty, shard=400):
    """queue a correspondence job; all jobs are evaluated concurrently by run_jobs()"""
    JOBS.append((name, chk, list(cases), ty, shard))


def run_jobs(ctx):
    from concurrent.futures import ThreadPoolExecutor
    jobs, JOBS[:] = list(JOBS), []

    def one(j):
        name, chk, cases, ty, shard = j
        return ctx.coq_cases(name, IMPORTS, chk, cases, ty=ty, shard=shard)
    with ThreadPoolExecutor(max_workers=3) as ex:
        results = list(ex.map(one, jobs))
    for (name, chk, cases, ty, shard), bad in zip(jobs, results):
        if bad:
            ctx.broke('correspondence:' + name, f'{len(bad)} of {len(cases)} differ; first: {cases[bad[0]][:1500]}')
        ctx.log(f'{name}: {len(cases)} cases, mismatching {bad}')


def nkey(alg):
    v = MODEL_CERT_ALGS.get(alg)
    return v[1] if v else None


def addr_list_ok(raw):
    if raw == b'':
        return True
    for a in raw.split(b','):
        try:
            ipaddress.ip_network(a.decode('ascii'))
        except (UnicodeDecodeError, ValueError):
            return False
    return True


ADDRS_OK = [a for a in ADDR_LISTS if addr_list_ok(a)]


def utf8_cps(b):
    try:
        return [ord(c) for c in b.decode('utf-8')]
    except UnicodeDecodeError:
        return None


def edits(blob, masks, positions=None):
    for i in (positions if positions is not None else range(len(blob))):
        for m in masks:
            yield i, m, blob[:i] + bytes([blob[i] ^ m]) + blob[i + 1:]


class Env:
    """Per-run state: key pool, code-variant probes."""

    def __init__(self, ctx):
        import asyncssh
        self.a = asyncssh
        self.ctx = ctx
        self.keys = {}
        for alg in KEY_ALGS:
            try:
                self.keys[alg] = asyncssh.generate_private_key(alg, key_size=2048) if alg == 'ssh-rsa' \
                    else asyncssh.generate_private_key(alg)
            except Exception as e:   # an unavailable key type is recorded, not an alarm
                ctx.count('keytype_unavailable.' + alg, group='oracle')
                ctx.log('key type unavailable:', alg, type(e).__name__)
        self.ca = asyncssh.generate_private_key('ssh-ed25519')
        self.ca2 = asyncssh.generate_private_key('ssh-ed25519')
        self.user = asyncssh.generate_private_key('ssh-ed25519')
        self.user2 = asyncssh.generate_private_key('ssh-ed25519')
        self.pub = {id(k): k.convert_to_public() for k in list(self.keys.values()) + [self.ca, self.ca2, self.user, self.user2]}

    def public(self, k):
        return self.pub[id(k)]

    # -- certificates ------------------------------------------------------------------------------
    def spec_for(self, subject, ca, rng, cert_alg=None, **kw):
        kalg, fields = L.key_fields(subject.public_data)
        alg = cert_alg or (kalg + L.CERT_SUFFIX)
        d = dict(alg=alg, nonce=bytes(rng.randrange(256) for _ in range(32)), key=fields, serial=rng.randrange(2 ** 64),
                 typ=1, keyid=b'id', princ=b'', va=0, vb=2 ** 64 - 1, opts=b'', exts=b'', rsv=b'',
                 cakey=ca.public_data)
        d.update(kw)
        return L.Spec(**d)

    def sign_spec(self, spec, ca, sig_alg=None):
        sig_alg = sig_alg or ca.sig_algorithms[0]
        sig = ca.sign(spec.tbs(), sig_alg)
        return spec.tbs() + S(sig), sig

    def real_import(self, blob):
        """-> (cert or None, error class)"""
        pk = self.a.public_key
        try:
            return pk.decode_ssh_certificate(blob), None
        except self.a.KeyImportError:
            return None, 'KeyImportError'
        except Exception as e:
            return None, type(e).__name__

    def sshsig_blob(self, key, cert, msg, namespace='file', hash_name='sha512', raw=True):
        kp = self.a.load_keypairs([(key, cert)] if cert is not None else [key])
        return self.a.create_sshsig(kp, msg, namespace=namespace, hash_name=hash_name, raw=raw)


# ================================================================================================
# stage: packet codecs, utf-8, wildcard lists

def stage_codecs(ctx, env):
    from asyncssh import packet as P
    rng = ctx.rng
    cs, cu, cg = [], [], []
    lens = [0, 1, 2, 3, 4, 5, 255, 256, 257, 300] + ([65535, 65536, 70000] if ctx.tier == 'thorough' else [])
    for n in lens + [rng.randrange(0, 64) for _ in range(40)]:
        s = bytes(rng.randrange(256) for _ in range(n)) if n < 1000 else bytes([n % 251]) * n
        cs.append('(%s, %s)' % (zl(s), zl(P.String(s))))
        ctx.note_case(('string', n, s[:8]), nontrivial=n > 0)
    for k, f in ((4, P.UInt32), (8, P.UInt64)):
        top = 256 ** k
        for v in [0, 1, 255, 256, 65535, 65536, top - 1, top - 2, top // 2, top // 2 - 1] + [rng.randrange(top) for _ in range(30)]:
            cu.append('(%d, %d, %s)' % (k, v, zl(f(v))))
            ctx.note_case(('uint', k, v), nontrivial=True)
    streams = [b'', b'\0', b'\0\0\0', b'\0\0\0\0', b'\0\0\0\1', b'\0\0\0\1a', b'\0\0\0\2a', b'\xff\xff\xff\xff', b'\0\0\1\0' + b'a' * 255,
               b'\0\0\1\0' + b'a' * 256, b'\0\0\0\3abcd']
    streams += [bytes(rng.choice([0, 0, 0, 1, 2, 5, 97, 255]) for _ in range(rng.randrange(0, 12))) for _ in range(80)]
    for _ in range(120):
        n = rng.randrange(0, 9)
        streams.append(b'\0\0\0' + bytes([n]) + bytes(rng.randrange(256) for _ in range(max(0, n + rng.choice([-1, 0, 0, 0, 1, 3])))))
    nerr = 0
    for st in streams:
        p = P.SSHPacket(st)
        try:
            v = p.get_string()
            got = (v, p.get_remaining_payload())
        except P.PacketDecodeError:
            got = None
            nerr += 1
        cg.append('(%s, %s)' % (zl(st), copt(got, lambda g: '(%s, %s)' % (zl(g[0]), zl(g[1])))))
        ctx.note_case(('get_string', st), nontrivial=True)
    ctx.count('codec.get_string_errors', nerr)
    if nerr == 0 or nerr == len(streams):
        ctx.broke('vacuity:get_string', 'malformed stream never/always failed')
    for name, chk, cases, ty in (('string', 'chk_string', cs, 'bytes * bytes'), ('uint', 'chk_uint', cu, 'Z * Z * bytes'),
                                 ('get_string', 'chk_get_string', cg, 'bytes * option (bytes * bytes)')):
        submit(ctx, name, chk, cases, ty)

    # utf-8
    U = [b'', b'a', b'\xc3\xa9', b'\xc2\x80', b'\xc1\xbf', b'\xc0\x80', b'\xe0\xa0\x80', b'\xe0\x9f\xbf', b'\xed\x9f\xbf',
         b'\xed\xa0\x80', b'\xee\x80\x80', b'\xef\xbf\xbf', b'\xf0\x90\x80\x80', b'\xf0\x8f\xbf\xbf', b'\xf4\x8f\xbf\xbf',
         b'\xf4\x90\x80\x80', b'\xf5\x80\x80\x80', b'\x80', b'\xbf', b'\xc3', b'\xe2\x82', b'\xf0\x9f\x98', b'a\xffb',
         b'\xe2\x82\xac', b'\xf0\x9f\x98\x80', b'ab\xc3\xa9\xe2\x82\xacz', b'\xc3\x28', b'\xe2\x28\xa1', b'\xfe', b'\xff',
         b'\xc2', b'\xe1\x80', b'\xe1\x80\xc0', b'\xf1\x80\x80\xc0']
    for _ in range(200):
        U.append(b''.join(rng.choice([b'a', b'\xc3\xa9', b'\xe2\x82\xac', b'\xf0\x9f\x98\x80', bytes([rng.randrange(128, 256)]),
                                      b'\xed', b'\xa0', b'\x80', b'\xe0', b'\xf4', b'\x90']) for _ in range(rng.randrange(1, 5))))
    cases = []
    nbad = 0
    for b in U:
        got = utf8_cps(b)
        nbad += got is None
        cases.append('(%s, %s)' % (zl(b), copt(got, zl)))
        ctx.note_case(('utf8', b), nontrivial=True)
    ctx.count('utf8.invalid', nbad)
    ctx.count('utf8.valid', len(U) - nbad)
    submit(ctx, 'utf8', 'chk_utf8', cases, 'bytes * option (list Z)')

    # wildcard pattern lists
    from asyncssh.pattern import WildcardPatternList
    cases = []
    alpha = ['a', 'b', '*', '?', '[', ']', '.', 'é', 'ab', '**', '*a', '-', 'A', 'B', 'É', 'Ab', ' ']
    vals = ['', 'a', 'b', 'ab', 'ba', 'aab', 'a.b', '[', 'a]', 'é', 'abab', '*', '?', 'a-b', '!a', 'A', 'AB', 'Ab', 'aB', 'É', 'a ', ' a', 'a.']
    # near misses that must not match: case variants, unicode case folding, trailing dot, whitespace
    NEAR = [('alice', 'Alice'), ('Alice', 'alice'), ('a*', 'ALICE'), ('ALICE', 'alice'), ('rémi', 'RÉMI'), ('RÉMI', 'rémi'),
            ('straße', 'STRASSE'), ('strasse', 'straße'), ('ǆ', 'ǅ'), ('i', 'İ'), ('ı', 'I'), ('k', '\u212a'), ('alice', 'alice.'),
            ('alice.', 'alice'), ('alice', 'alice '), ('alice', ' alice'), ('alice ', 'alice'), ('file', 'File'), ('FILE', 'file'),
            ('f?le', 'FILE'), ('release@example.com', 'Release@example.com'), ('*@example.com', 'bob@EXAMPLE.COM'),
            ('*,!alice', 'Alice'), ('alice', 'alice'), ('a*', 'aLICE'), ('*@example.com', 'Bob@example.com'), ('é', 'e\u0301')]
    nmatch = 0
    for it in range(len(NEAR) + (1200 if ctx.tier == 'thorough' else 350)):
        pl = []
        for _k in range(rng.randrange(1, 4)):
            pat = ''.join(rng.choice(alpha) for _ in range(rng.randrange(0, 4)))
            pl.append((rng.random() < 0.25, pat))
        text = ','.join(('!' if n else '') + p for n, p in pl)
        if it < len(NEAR):
            text = NEAR[it][0]
        # the text form is re-split by the implementation: keep the structured form consistent with it
        pl = [(t.startswith('!'), t[1:] if t.startswith('!') else t) for t in text.split(',')]
        v = rng.choice(vals) if rng.random() < 0.7 else ''.join(rng.choice('ab.[é') for _ in range(rng.randrange(0, 5)))
        if it < len(NEAR):
            v = NEAR[it][1]
        got = bool(WildcardPatternList(text).matches(v))
        nmatch += got
        if got != my_patlist(pl, v):
            ctx.failing_input(f'principal/namespace pattern list {text!r} {"matches" if got else "does not match"} {v!r} '
                              '(matching must be exact, case-sensitive wildcard matching)',
                              dict(kind='wmatch', patterns=text, value=v, expect=not got))
        cases.append('(%s, %s, %s)' % (coq_patlist(pl), zs(v), cbool(got)))
        ctx.note_case(('wmatch', text, v), nontrivial='*' in text or '?' in text or '!' in text)
    ctx.count('wmatch.matched', nmatch)
    ctx.count('wmatch.unmatched', len(cases) - nmatch)
    if nmatch < 10:
        ctx.broke('vacuity:wmatch', 'almost no generated pattern matched')
    submit(ctx, 'wmatch', 'chk_wmatch', cases, 'patlist * list Z * bool')


def coq_patlist(pl):
    return clist(pl, lambda e: '(%s, %s)' % (cbool(e[0]), zs(e[1])))


# ================================================================================================
# stage: SSHKey.verify gate (correspondence) and the implementation sweep over every key type x algorithm

def stage_verify(ctx, env):
    from asyncssh import packet as P
    rng = ctx.rng
    thorough = ctx.tier == 'thorough'
    all_names = sorted({a for k in env.keys.values() for a in k.all_sig_algorithms} | {b'', b'ssh-rsa-cert-v01@openssh.com', b'rsa1024-sha1'})
    cases = []
    n_edits = n_alias = n_exc = 0
    pairs = 0
    for kalg, key in env.keys.items():
        pk = env.public(key)
        algs = sorted(pk.all_sig_algorithms)
        others = [env.public(k) for a, k in env.keys.items() if a != kalg] + [env.public(env.ca)]
        try:
            twin = env.a.generate_private_key(kalg, key_size=2048).convert_to_public() if kalg == 'ssh-rsa' and thorough \
                else (env.a.generate_private_key(kalg).convert_to_public() if kalg != 'ssh-rsa' else None)
        except Exception:
            twin = None
        if twin is not None:
            others.append(twin)
        for sa in key.sig_algorithms:
            pairs += 1
            for msg in (b'', b'attack at dawn', bytes(rng.randrange(256) for _ in range(97))):
                sig = key.sign(msg, sa)

                def real_verify(k, m, s):
                    nonlocal n_exc
                    try:
                        return bool(k.verify(m, s))
                    except Exception as e:   # verify is documented to return a bool
                        n_exc += 1
                        ctx.count('verify_raised.' + type(e).__name__, group='oracle')
                        return False

                def violation(kind, **kw):
                    ctx.failing_input(
                        f'{kalg} signature ({sa.decode()}) still verifies after altering the {kind}',
                        dict(kind='verify', keyalg=kalg, sigalg=sa.decode(), key=pk.public_data.hex(), msg=msg.hex(),
                             sig=sig.hex(), altered=kind, **{k: (v.hex() if isinstance(v, bytes) else v) for k, v in kw.items()}))

                # completeness
                if not real_verify(pk, msg, sig):
                    ctx.failing_input(f'{kalg} signature ({sa.decode()}) made by the key does not verify under its public key',
                                      dict(kind='verify', keyalg=kalg, sigalg=sa.decode(), key=pk.public_data.hex(),
                                           msg=msg.hex(), sig=sig.hex(), altered='nothing'))
                ctx.note_case(('verify', kalg, sa, len(msg)), nontrivial=True)
                # every single-byte edit of the signature blob (this includes the algorithm name and lengths)
                small = len(sig) <= 160
                masks = list(range(1, 256)) if (thorough and small) else ([1, 2, 0x10, 0x80, 0xff] + [rng.randrange(1, 256)])
                for i, m, s2 in edits(sig, masks):
                    n_edits += 1
                    if real_verify(pk, msg, s2):
                        violation('signature blob', offset=i, mask=m, edited=s2)
                # every single-byte edit of the message
                for i, m, m2 in edits(msg, [1, 0x80] if not thorough else [1, 2, 4, 8, 16, 32, 64, 128]):
                    n_edits += 1
                    if real_verify(pk, m2, sig):
                        violation('message', offset=i, mask=m, edited=m2)
                for m2 in (msg + b'\0', msg[:-1] if msg else b'x', b'\0' + msg):
                    if real_verify(pk, m2, sig):
                        violation('message', edited=m2)
                # truncation / extension of the blob, and of the String nested inside it
                r = L.Rd(sig)
                r.s()
                rest = r.rest()
                grown = []
                try:
                    inner = L.Rd(rest).s()
                    grown = [S(sa) + S(inner + b'\0'), S(sa) + S(b'\0' + inner), S(sa) + S(inner[:-1]), S(sa) + S(inner) + S(b'')]
                    parts = L.split_strings(inner)       # ECDSA: r and s
                    if len(parts) == 2 and inner:
                        grown += [S(sa) + S(S(parts[0]) + S(parts[1]) + S(b'')), S(sa) + S(S(parts[1]) + S(parts[0]))]
                except L.ParseError:
                    pass
                for s2 in [sig[:-1], sig + b'\0', sig[1:], b'', sig[:4], sig + sig] + grown:
                    n_edits += 1
                    if s2 != sig and real_verify(pk, msg, s2):
                        violation('signature blob', edited=s2)
                # algorithm name replaced by every other known name
                r = L.Rd(sig)
                r.s()
                rest = r.rest()
                for name in all_names:
                    if name == sa:
                        continue
                    s2 = S(name) + rest
                    if real_verify(pk, msg, s2):
                        if kalg == 'ssh-rsa' and RSA_HASH.get(name) == RSA_HASH.get(sa):
                            n_alias += 1     # same RSASSA-PKCS1-v1_5 + hash under another registered name
                        else:
                            violation('algorithm name', newname=name)
                # other keys
                for ok_ in others:
                    if real_verify(ok_, msg, sig):
                        violation('key', otherkey=ok_.public_data)
                # single-byte edits of the public key blob
                pb = pk.public_data
                pos = range(len(pb)) if (thorough or len(pb) < 120) else sorted(rng.sample(range(len(pb)), 60))
                for i, m, pb2 in edits(pb, [1, 0x80], pos):
                    try:
                        k2 = env.a.public_key.decode_ssh_public_key(pb2)
                    except env.a.KeyImportError:
                        continue
                    except Exception as e:
                        ctx.count('pubkey_decode_raised.' + type(e).__name__, group='oracle')
                        continue
                    n_edits += 1
                    if real_verify(k2, msg, sig):
                        violation('key', offset=i, mask=m, otherkey=pb2)

                # correspondence of the gate: record verify_ssh calls of this key object
                variants = [sig, sig[:-1], sig + b'\0', b'', sig[:3], S(b'') + rest, S(sa)[:-1] + b'\0' + rest]
                variants += [S(n) + rest for n in rng.sample(all_names, 3)]
                variants += [s2 for _, _, s2 in edits(sig, [1, 0x40], sorted(rng.sample(range(len(sig)), 6)))]
                for s2 in variants:
                    calls = []
                    inst = env.a.public_key.decode_ssh_public_key(pk.public_data)
                    orig = inst.verify_ssh

                    def rec(data, alg, packet, _o=orig, _c=calls):
                        rem = packet.get_remaining_payload()
                        try:
                            r_ = _o(data, alg, packet)
                        except P.PacketDecodeError:
                            _c.append((data, alg, rem, False))
                            raise
                        _c.append((data, alg, rem, bool(r_)))
                        return r_
                    try:
                        inst.verify_ssh = rec
                    except AttributeError:
                        ctx.count('verify_ssh_hook_unavailable', group='oracle')
                    got = real_verify(inst, msg, s2)
                    cases.append('(%s, %s, %s, %s, %s)' % (
                        clist(algs, zl), zl(msg), zl(s2),
                        clist(calls, lambda c: '(%s, %s, %s, %s)' % (zl(c[0]), zl(c[1]), zl(c[2]), cbool(c[3]))), cbool(got)))
                    ctx.count('verify_gate.' + ('accept' if got else ('reached_crypto' if calls else 'gated')))
    ctx.cov['oracle']['verify_keytype_x_sigalg_pairs'] = pairs
    ctx.cov['oracle']['verify_single_byte_edits'] = n_edits
    ctx.cov['oracle']['rsa_same_hash_alias_names_accepted'] = n_alias
    ctx.cov['oracle']['verify_raised'] = n_exc
    d = ctx.cov['distribution']
    if pairs < 8 or not d.get('verify_gate.accept') or not d.get('verify_gate.gated') or not d.get('verify_gate.reached_crypto'):
        ctx.broke('vacuity:verify', f'pairs={pairs} dist={ {k: v for k, v in d.items() if k.startswith("verify_gate")} }')
    # the model cases are large for RSA; keep every non-RSA case and a sample of RSA ones in the quick tier
    submit(ctx, 'verify_gate', 'chk_verify', cases, 'list bytes * bytes * bytes * list (bytes * bytes * bytes * bool) * bool', 150)
    ctx.sample({'verify_gate': {'cases': len(cases), 'names_tried': [n.decode() for n in all_names]}})


# ================================================================================================
# stage: certificates

UNK_CRIT = [b'verified-only@verif', b'force-command2', b'', b'permit-pty', b'FORCE-COMMAND', b'\xff']
UNK_EXT = [b'foo@verif', b'', b'permit-pty2', b'force-command', b'\xc3\xa9']
VALS = [b'', S(b''), S(b'x'), b'permit-pty', b'force-command', S(b'ls'), b'\0', S(b'permit-pty')]


def gen_opts(rng):
    """critical options field: list of (name, data)"""
    pairs = []
    r = rng.random()
    n = 0 if r < 0.35 else rng.randrange(1, 4)
    for _ in range(n):
        k = rng.random()
        if k < 0.35:
            cmd = rng.choice([b'ls', b'', b'echo \xc3\xa9', b'\xff\xfe', b'a' * 40])
            data = S(cmd) if rng.random() < 0.85 else rng.choice([cmd, S(cmd) + b'\0', S(cmd)[:-1], b''])
            pairs.append((b'force-command', data))
        elif k < 0.7:
            al = rng.choice(ADDR_LISTS)
            data = S(al) if rng.random() < 0.85 else rng.choice([al, S(al) + S(b''), b''])
            pairs.append((b'source-address', data))
        else:
            pairs.append((rng.choice(UNK_CRIT), rng.choice(VALS)))
    return pairs


def gen_exts(rng):
    pairs = []
    n = rng.randrange(0, 5)
    for _ in range(n):
        k = rng.random()
        if k < 0.6:
            pairs.append((rng.choice(L.EXT_BOOLS), b'' if rng.random() < 0.9 else rng.choice([b'x', S(b'')])))
        else:
            pairs.append((rng.choice(UNK_EXT), rng.choice(VALS)))
    return pairs


def gen_princ(rng):
    names = [rng.choice([b'alice', b'bob', b'', b'r\xc3\xa9mi', b'host.example.com', b'\xff', b'*', b'a,b', b'alice ']) for _ in range(rng.randrange(0, 4))]
    raw = b''.join(S(n) for n in names)
    r = rng.random()
    if r < 0.06:
        raw = raw[:-1] if raw else b'\0'
    elif r < 0.1:
        raw += b'\0\0'
    return names, raw


TIMES = [0, 1, 2, 1000, 2 ** 31 - 1, 2 ** 31, 2 ** 32 - 1, 2 ** 32, 2 ** 63, 2 ** 64 - 2, 2 ** 64 - 1, 1700000000, 1900000000]


def gen_window(rng):
    va = rng.choice(TIMES) if rng.random() < 0.7 else rng.randrange(2 ** 33)
    vb = rng.choice(TIMES) if rng.random() < 0.7 else rng.randrange(2 ** 33)
    if rng.random() < 0.8 and vb <= va:
        va, vb = min(va, vb), max(va, vb)
    return va, vb


def gen_now(rng, va, vb):
    c = [va - 1, va, va + 1, vb - 1, vb, vb + 1, 0, 2 ** 64, (va + vb) // 2, 1700000000]
    return max(0, rng.choice(c))


def cert_obs(cert, spec):
    """observed view of an imported certificate (private fields fall back to the wire values)"""
    typ = getattr(cert, '_cert_type', spec.typ)
    va = getattr(cert, '_valid_after', spec.va)
    vb = getattr(cert, '_valid_before', spec.vb)
    kid = getattr(cert, '_key_id', None)
    kid = [ord(c) for c in kid] if isinstance(kid, str) else utf8_cps(spec.keyid)
    ps = [[ord(c) for c in p] for p in cert.principals]
    slots = []
    for n in L.OPT_NAMES:
        v = cert.options.get(n.decode())
        if v is None:
            slots.append(None)
        elif n == b'force-command':
            slots.append(v.encode('utf-8') if isinstance(v, str) else bytes(v))
        else:
            slots.append(b'')
    return (typ, va, vb, kid, ps, slots)


def coq_cert_obs(o):
    typ, va, vb, kid, ps, slots = o
    return '(%s, %s, %s, %s, %s, %s)' % (cz(typ), cz(va), cz(vb), zl(kid), clist(ps, zl), clist(slots, lambda s: copt(s, zl)))


def coq_calls(calls):
    return clist(calls, lambda c: '(%s, %s, %s, %s)' % (zl(c[0]), zl(c[1]), zl(c[2]), cbool(c[3])))


def spec_critical_ok(spec):
    """Independent statement of 'every critical option is understood' on the wire fields."""
    try:
        strs = L.split_strings(spec.opts)
    except L.ParseError:
        return False
    if len(strs) % 2:
        return False
    for i in range(0, len(strs), 2):
        name, data = strs[i], strs[i + 1]
        if spec.typ != 1:
            return False
        if name == b'force-command':
            try:
                inner = L.split_strings(data)
            except L.ParseError:
                return False
            if len(inner) != 1 or utf8_cps(inner[0]) is None:
                return False
        elif name == b'source-address':
            try:
                inner = L.split_strings(data)
            except L.ParseError:
                return False
            if len(inner) != 1 or not addr_list_ok(inner[0]):
                return False
        else:
            return False
    return True


def spec_accept(spec, names, want, principal, now):
    """The property's acceptance conditions evaluated on the fields the CA signed (necessary conditions)."""
    if spec.typ not in (1, 2):
        return False
    if want not in (0, spec.typ):
        return False
    if not (spec.va <= now < spec.vb):
        return False
    if names is None:
        return False
    if principal is not None and names and principal.encode() not in names:
        return False
    return spec_critical_ok(spec)


def stage_certs(ctx, env):
    rng = ctx.rng
    thorough = ctx.tier == 'thorough'
    a = env.a
    tmp = tempfile.mkdtemp(prefix='c16-', dir='/var/tmp')
    try:
        _stage_certs(ctx, env, rng, thorough, a, tmp)
    finally:
        shutil.rmtree(tmp, ignore_errors=True)


def _stage_certs(ctx, env, rng, thorough, a, tmp):
    enc_cases, imp_cases, val_cases, str_cases, opt_cases = [], [], [], [], []
    n_unexpected = {}
    kg_used = kg_disagree = 0

    def run_import(blob, spec, note, kf=True):
        """real import under the recorder -> appends a correspondence case, returns cert or None"""
        with L.Recorder() as rec:
            cert, err = env.real_import(blob)
        if err not in (None, 'KeyImportError'):
            n_unexpected[err] = n_unexpected.get(err, 0) + 1
            ctx.count('cert_import.unexpected_' + err, group='oracle')
            return None, err          # outside the model (not an accept); reported in evidence
        if not rec.available:
            ctx.count('recorder_unavailable', group='oracle')
            calls, pubs = fallback_calls(env, blob)
        else:
            calls, pubs = rec.sig_calls, rec.pub_ok
        obs = cert_obs(cert, spec) if cert is not None else None
        imp_cases.append('(%s, %s, %s, %s, %s, %s)' % (
            zl(blob), coq_calls(calls), clist(pubs, zl), cbool(kf), clist(addrs_for(spec), zl),
            copt(obs, coq_cert_obs)))
        ctx.count('cert_import.' + note + ('.accepted' if cert is not None else '.rejected'))
        return cert, err

    # ---- A. certificates made by the real generator: encoder correspondence + ssh-keygen -L ----
    cas = list(env.keys.items())
    subjects = list(env.keys.items())
    combos = [(c, s) for c in cas for s in subjects] if thorough else \
        [(cas[i], subjects[(i * 3 + 1) % len(subjects)]) for i in range(len(cas))] + [(cas[0], s) for s in subjects]
    real_certs = []
    for (caalg, ca), (salg, subj) in combos:
        user = rng.random() < 0.6
        princs = rng.choice([[], ['alice'], ['alice', 'bob'], ['rémi', 'host.example.com']])
        va, vb = rng.choice([(0, 2 ** 64 - 1), (1000, 2000), (1700000000, 1900000000), (5, 2 ** 32)])
        sig_algs = ca.sig_algorithms if caalg != 'ssh-rsa' else (b'rsa-sha2-256', b'rsa-sha2-512', b'ssh-rsa')
        sa = rng.choice(list(sig_algs)).decode()
        kw = dict(principals=princs, valid_after=va, valid_before=vb, serial=rng.randrange(2 ** 64), sig_alg=sa)
        try:
            if user:
                fc = rng.choice([None, 'ls -l', 'écho'])
                sa_ = rng.choice([None, ['10.0.0.0/8'], ['1.2.3.4', '::1']])
                flags = {k: rng.random() < 0.7 for k in ('permit_x11_forwarding', 'permit_agent_forwarding',
                                                         'permit_port_forwarding', 'permit_pty', 'permit_user_rc')}
                cert = ca.generate_user_certificate(subj, 'kid-é', force_command=fc, source_address=sa_,
                                                    touch_required=rng.random() < 0.7, **flags, **kw)
            else:
                cert = ca.generate_host_certificate(subj, 'host-id', **kw)
        except Exception as e:
            ctx.broke('harness:cert-generate', f'{caalg}/{salg}: {e!r}')
            continue
        blob = cert.public_data
        try:
            spec, sig = L.parse_cert(blob, nkey)
        except L.ParseError:
            ctx.broke('correspondence:cert_enc', f'harness parser cannot read a generated {salg} certificate')
            continue
        real_certs.append((caalg, ca, salg, subj, spec, sig, blob, princs))
        names = [p.encode() for p in princs]
        if spec.princ != b''.join(S(n) for n in names) or spec.serial != kw['serial'] or spec.typ != (1 if user else 2) \
                or spec.va != va or spec.vb != vb or spec.cakey != ca.public_data or (salg, spec.key) != \
                (salg, L.key_fields(subj.public_data)[1]):
            ctx.failing_input(f'generated certificate ({caalg} CA, {salg} subject) does not carry the requested contents',
                              dict(kind='cert_generate', blob=blob.hex()))
        enc_cases.append('(%s, %s, %s)' % (spec.coq(), zl(sig), zl(blob)))
        str_cases.append('(%s, %s)' % (clist(names, zl), zl(spec.princ)))
        ctx.note_case(('cert_enc', caalg, salg, user, tuple(princs), va, vb), nontrivial=True)
        c2, err = run_import(blob, spec, 'generated')
        if c2 is None:
            ctx.failing_input(f'certificate generated by asyncssh ({caalg} CA, {salg} subject) is rejected on import: {err}',
                              dict(kind='cert_import', blob=blob.hex(), expect='accept'))
        # text formats through the public import_certificate
        for fmt in ('openssh', 'rfc4716'):
            try:
                c3 = a.import_certificate(cert.export_certificate(fmt))
                if c3.public_data != blob:
                    raise ValueError('different certificate')
            except Exception as e:
                ctx.failing_input(f'import_certificate(export_certificate({fmt})) fails: {e!r}',
                                  dict(kind='cert_import', blob=blob.hex(), expect='accept', fmt=fmt))
        # ssh-keygen -L agrees on the contents
        if L.KEYGEN and salg != 'ssh-ed448' and caalg != 'ssh-ed448' and '1.3.132.0.10' not in salg + caalg:
            kl = L.keygen_list_cert(tmp, spec.alg, blob)
            if kl:
                kg_used += 1
                mine = cert_obs(c2, spec) if c2 is not None else None
                if mine is not None:
                    crit = sorted(n.decode() for n, s in zip(L.OPT_NAMES[:2], mine[5][:2]) if s is not None)
                    ext = sorted(n.decode() for n, s in zip(L.OPT_NAMES[2:], mine[5][2:]) if s is not None)
                    if kl['type'] != mine[0] or kl['principals'] != princs or sorted(kl['critical']) != crit \
                            or sorted(kl['extensions']) != ext:
                        kg_disagree += 1
                        ctx.failing_input('ssh-keygen -L reads different contents from a certificate than asyncssh does',
                                          dict(kind='cert_keygen_list', blob=blob.hex(), keygen=kl, asyncssh=repr(mine)))
            elif kl is False:
                kg_disagree += 1
                ctx.failing_input('ssh-keygen -L refuses a certificate generated by asyncssh',
                                  dict(kind='cert_keygen_list', blob=blob.hex(), keygen='refused'))

    # ---- B. hand-built certificates signed by a real CA: import + validate, model and spec oracle ----
    n_hand = 2500 if thorough else 600
    branch = {}
    # targeted plans first (every run): an otherwise acceptable certificate carrying exactly one suspicious item
    targeted = [dict(typ=t, opts=[], exts=[]) for t in (1, 2, 0, 3)]
    for t in (1, 2):
        for name in UNK_CRIT + [b'force-command', b'source-address']:
            for data in VALS:
                if t == 1 and name in (b'force-command', b'source-address'):
                    continue
                targeted.append(dict(typ=t, opts=[(name, data)], exts=[]))
                if t == 1 and data == b'':
                    targeted.append(dict(typ=t, opts=[(b'force-command', S(b'ls')), (name, data)], exts=[]))
                    targeted.append(dict(typ=t, opts=[(name, data), (b'force-command', S(b'ls'))], exts=[]))
    for name, data in [(b'force-command', S(b'ls')), (b'force-command', b'ls'), (b'force-command', S(b'\xff')), (b'force-command', S(b'ls') + b'\0'),
                       (b'source-address', S(b'10.0.0.0/8')), (b'source-address', S(b'10.0.0.1/8')), (b'source-address', b'')]:
        targeted.append(dict(typ=1, opts=[(name, data)], exts=[]))
    for name in UNK_EXT + [b'permit-pty']:
        for data in VALS:
            targeted.append(dict(typ=1, opts=[], exts=[(name, data)]))
            targeted.append(dict(typ=1, opts=[], exts=[(name, data), (b'', b'')]))
    always = [dict(typ=1, opts=[], exts=[(b'foo@verif', b'permit-pty'), (b'', b'')]),          # data spelling a known name
              dict(typ=1, opts=[], exts=[(b'foo@verif', b'permit-pty')]),
              dict(typ=1, opts=[], exts=[(b'foo@verif', S(b'bar')), (b'permit-pty', b'')]),
              dict(typ=1, opts=[], exts=[(b'foo@verif', b'no-touch-required'), (b'', b''), (b'permit-pty', b'')]),
              dict(typ=2, opts=[(b'verified-only@verif', b'')], exts=[]),                       # host: nothing is understood
              dict(typ=2, opts=[(b'force-command', S(b'ls'))], exts=[]),
              dict(typ=2, opts=[(b'source-address', S(b'10.0.0.0/8'))], exts=[]),
              dict(typ=2, opts=[], exts=[(b'permit-pty', b'')]),
              dict(typ=2, opts=[], exts=[(b'foo@verif', b'x')]),
              dict(typ=1, opts=[(b'verified-only@verif', b'')], exts=[]),
              dict(typ=1, opts=[(b'force-command', S(b'ls')), (b'verified-only@verif', S(b'x'))], exts=[])]
    always += [dict(typ=2, opts=[], exts=[], raw_opts=b'\0\0\0'), dict(typ=2, opts=[], exts=[], raw_exts=S(b'x')),
               dict(typ=1, opts=[], exts=[], raw_exts=S(b'foo@verif'))]
    if not thorough:
        targeted = targeted[:4] + rng.sample(targeted[4:], 100)
    targeted = targeted[:4] + always + targeted[4:]
    for i in range(len(targeted) + n_hand):
        plan = targeted[i] if i < len(targeted) else None
        caalg, ca = ('ssh-ed25519', env.ca) if rng.random() < 0.8 else rng.choice(cas)
        salg, subj = ('ssh-ed25519', env.user) if rng.random() < 0.7 else rng.choice(subjects)
        names, praw = gen_princ(rng)
        va, vb = gen_window(rng)
        typ = rng.choice([1, 1, 1, 2, 2, 0, 3, 2 ** 32 - 1])
        opts = gen_opts(rng) if typ == 1 or rng.random() < 0.3 else []
        exts = gen_exts(rng) if typ == 1 or rng.random() < 0.3 else []
        if plan:
            (caalg, ca), (salg, subj) = ('ssh-ed25519', env.ca), ('ssh-ed25519', env.user)
            names, praw, va, vb = [], b'', 0, 2 ** 64 - 1
            typ, opts, exts = plan['typ'], plan['opts'], plan['exts']
        oraw = L.enc_pairs(opts)
        eraw = L.enc_pairs(exts)
        if rng.random() < 0.04 and not plan:
            oraw = oraw[:-1] if oraw else b'\0\0\0'
        if rng.random() < 0.04 and not plan:
            eraw = eraw + b'\0'
        if plan and plan.get('raw_opts') is not None:
            oraw = plan['raw_opts']
        if plan and plan.get('raw_exts') is not None:
            eraw = plan['raw_exts']
        keyid = rng.choice([b'id', b'', b'r\xc3\xa9mi', b'\xff'] if rng.random() < 0.2 and not plan else [b'id'])
        spec = env.spec_for(subj, ca, rng, typ=typ, keyid=keyid, princ=praw, va=va, vb=vb, opts=oraw, exts=eraw,
                            rsv=rng.choice([b'', b'', b'', b'x']))
        kf = True
        mode = rng.random() if not plan else 0.0
        note = 'handbuilt'
        if mode < 0.78:
            blob, sig = env.sign_spec(spec, ca, rng.choice(list(ca.sig_algorithms)) if caalg != 'ssh-rsa' else b'rsa-sha2-256')
        elif mode < 0.84:      # signed by another key than the embedded CA key
            blob, sig = env.sign_spec(spec, env.ca2)
            note = 'wrong_signer'
        elif mode < 0.90:      # contents changed after signing
            blob0, sig = env.sign_spec(spec, ca)
            spec = spec.copy(**rng.choice([dict(serial=spec.serial ^ 1), dict(vb=(spec.vb + 1) % 2 ** 64), dict(typ=3 - typ if typ in (1, 2) else 1),
                                           dict(princ=b''), dict(opts=b''), dict(keyid=b'root'), dict(nonce=spec.nonce[::-1])]))
            blob = spec.tbs() + S(sig)
            if blob == blob0:
                continue
            note = 'altered_after_signing'
        elif mode < 0.94:      # trailing bytes after the signature / truncated
            blob, sig = env.sign_spec(spec, ca)
            blob = rng.choice([blob + b'\0', blob[:-1], blob + S(b''), blob[:rng.randrange(len(blob))]])
            note = 'length_damage'
        elif mode < 0.97:      # unknown certificate algorithm or wrong key-field count
            other = rng.choice([b'ssh-rsa-cert-v01@openssh.com', b'ssh-ed25519-cert-v02@openssh.com', b'ssh-ed25519', b''])
            spec = spec.copy(alg=other)
            blob, sig = env.sign_spec(spec, ca)
            note = 'alg_name'
        else:                  # subject key material damaged but CA-signed
            bad = [bytes(len(f)) for f in spec.key] if rng.random() < 0.5 else [f[:-1] for f in spec.key]
            spec = spec.copy(key=bad)
            blob, sig = env.sign_spec(spec, ca)
            note = 'bad_subject_key'
        kf = subject_key_ok(env, spec)
        cert, err = run_import(blob, spec, note, kf)
        if err not in (None, 'KeyImportError'):
            continue
        if cert is not None and note in ('handbuilt', 'bad_subject_key', 'alg_name'):
            # what the CA signed, read as (name, data) pairs, against what the import reports
            granted = sorted(n for n in L.EXT_BOOLS if cert.options.get(n.decode()) is not None)
            try:
                strs = L.split_strings(spec.exts)
                epairs = list(zip(strs[0::2], strs[1::2])) if len(strs) % 2 == 0 else None
            except L.ParseError:
                epairs = None
            if epairs is None:
                ok_ext = False
            elif spec.typ == 1:
                ok_ext = granted == sorted({n for n, d in epairs if n in L.EXT_BOOLS})
            else:
                ok_ext = not granted
            if not ok_ext:
                ctx.failing_input('certificate imported with extensions ' + repr(granted) + ' although the signed extensions field '
                                  + ('is not a sequence of (name, data) pairs' if epairs is None else
                                     'names ' + repr(sorted({n for n, d in epairs}))),
                                  dict(kind='cert_extensions', blob=blob.hex(), granted=[g.decode() for g in granted]))
        if cert is not None and note in ('wrong_signer', 'altered_after_signing', 'length_damage'):
            ctx.failing_input(f'certificate imports although the CA signature does not cover exactly these bytes ({note})',
                              dict(kind='cert_import', blob=blob.hex(), expect='reject', damage=note))
        try:
            pnames = L.split_strings(spec.princ)
            if any(utf8_cps(n) is None for n in pnames):
                pnames = None
        except L.ParseError:
            pnames = None
        # validate at boundary times with wanted type / principal
        for probe in range(3):
            want = rng.choice([0, 1, 2, 1, 2, 3])
            principal = rng.choice([None, 'alice', 'bob', 'rémi', '', '*', 'alice ', 'mallory', 'alic', 'a', 'bo', 'host'])
            now = gen_now(rng, spec.va, spec.vb)
            if plan and probe == 0:
                want, principal, now = 0, None, 1700000000
            elif rng.random() < 0.15:
                now = now + 0.5 if rng.random() < 0.5 else max(0, now - 0.5)
            accepted = False
            if cert is not None:
                with L.clock(now):
                    try:
                        cert.validate(want, principal)
                        accepted = True
                    except ValueError:
                        accepted = False
                if isinstance(now, int):
                    o = cert_obs(cert, spec)
                    val_cases.append('(%s, %s, %s, %s, %s, %s, %s, %s)' % (
                        cz(o[0]), cz(o[1]), cz(o[2]), clist(o[4], zl), cz(want), copt(principal, zs), cz(now), cbool(accepted)))
                k = ('ok' if accepted else 'type' if want not in (0, spec.typ) else 'early' if now < spec.va else
                     'late' if now >= spec.vb else 'principal')
                branch[k] = branch.get(k, 0) + 1
                ctx.count('validate.' + k)
            ctx.note_case(('cert', note, typ, tuple(names), va, vb, tuple(opts), tuple(exts), want, principal, now),
                          nontrivial=True)
            intact = note in ('handbuilt', 'bad_subject_key', 'alg_name')
            expect = intact and spec_accept(spec, pnames, want, principal, now)
            if accepted and not expect:
                why = ('the CA signature does not cover these contents' if not intact else
                       'type/window/principal/critical-option conditions of the signed contents do not hold')
                ctx.failing_input(f'certificate accepted although {why} (type={spec.typ} window=[{spec.va},{spec.vb}) '
                                  f'principals={names!r} options={opts!r}; wanted type={want} principal={principal!r} now={now})',
                                  dict(kind='cert_accept', blob=blob.hex(), want=want, principal=principal, now=now, expect='reject'))
        if len(targeted) <= i < len(targeted) + 2:
            ctx.sample({'handbuilt_certificate': {'type': typ, 'principals': [repr(n) for n in names], 'window': [va, vb],
                                                  'critical': repr(opts), 'extensions': repr(exts), 'imported': cert is not None}})
        # _decode_options correspondence on the raw option fields (user tables)
        if i % 3 == 0:
            opt_cases.extend(decode_options_cases(env, oraw, eraw))

    for k in ('ok', 'type', 'early', 'late', 'principal'):
        if branch.get(k, 0) < 3:
            ctx.broke('vacuity:validate', f'branch {k} hit {branch.get(k, 0)} times')
    d = ctx.cov['distribution']
    for k in ('cert_import.handbuilt.accepted', 'cert_import.handbuilt.rejected', 'cert_import.wrong_signer.rejected',
              'cert_import.altered_after_signing.rejected'):
        if not d.get(k):
            ctx.broke('vacuity:cert_import', f'no case in bucket {k}')

    # ---- C. every single-byte edit of real certificates: implementation sweep + sampled model cases ----
    n_edit = surv = 0
    sweep = real_certs if thorough else real_certs[:len(cas) + 2]
    for caalg, ca, salg, subj, spec, sig, blob, princs in sweep:
        masks = [1, 0x80, 0xff] if not thorough else [1, 2, 4, 8, 0x10, 0x20, 0x40, 0x80, 0xff]
        model_pos = set(rng.sample(range(len(blob)), 6 if not thorough else 20))
        for i, m, b2 in edits(blob, masks):
            n_edit += 1
            if i in model_pos and m == 1:
                try:
                    sp2, _ = L.parse_cert(b2, nkey)
                except L.ParseError:
                    sp2 = spec
                cert, err = run_import(b2, sp2, 'single_byte_edit', subject_key_ok(env, sp2))
            else:
                cert, err = env.real_import(b2)
                if err not in (None, 'KeyImportError'):
                    n_unexpected[err] = n_unexpected.get(err, 0) + 1
            if cert is not None:
                surv += 1
                ctx.failing_input(f'certificate ({caalg} CA, {salg} subject) still imports after changing byte {i} (xor {m:#x})',
                                  dict(kind='cert_import', blob=b2.hex(), expect='reject', offset=i, mask=m, original=blob.hex()))
        ctx.note_case(('cert_edit_sweep', caalg, salg, len(blob)), nontrivial=True)
        # ssh-keygen also refuses a sample of the edited certificates
        if L.KEYGEN and salg != 'ssh-ed448' and caalg != 'ssh-ed448' and '1.3.132.0.10' not in salg + caalg:
            for i in rng.sample(range(len(S(spec.alg)), len(blob)), 4 if not thorough else 12):
                b2 = blob[:i] + bytes([blob[i] ^ 1]) + blob[i + 1:]
                kl = L.keygen_list_cert(tmp, spec.alg, b2)
                if kl is not None:
                    kg_used += 1
                    if kl is not False:
                        # ssh-keygen accepted an edited certificate that asyncssh rejects: not an asyncssh failure
                        ctx.count('keygen_accepts_edited_cert', group='oracle')
    ctx.cov['oracle']['cert_single_byte_edits'] = n_edit
    ctx.cov['oracle']['cert_single_byte_edit_survivors'] = surv
    ctx.cov['oracle']['cert_import_unexpected_exception_classes'] = n_unexpected
    ctx.cov['oracle']['ssh_keygen_L_runs'] = kg_used
    ctx.cov['oracle']['ssh_keygen_available'] = bool(L.KEYGEN)
    if n_edit < 2000:
        ctx.broke('vacuity:cert_edits', f'only {n_edit} edits tried')

    for name, chk, cases, ty, shard in (
            ('cert_enc', 'chk_cert_enc', enc_cases, 'cert_fields * bytes * bytes', 40),
            ('strings_enc', 'chk_strings_enc', str_cases, 'list bytes * bytes', 400),
            ('cert_import', 'chk_cert_import', imp_cases,
             'bytes * sig_calls * list bytes * bool * list bytes * option cert_obs', 60),
            ('dec_options', 'chk_dec_options', opt_cases,
             'bool * bool * bytes * list bytes * option (list (option bytes))', 400),
            ('validate', 'chk_validate', val_cases, 'Z * Z * Z * list (list Z) * Z * option (list Z) * Z * bool', 400)):
        submit(ctx, name, chk, cases, ty, shard)


def addrs_for(spec):
    """address lists the library accepts: the fixed alphabet plus any acceptable list inside this certificate"""
    out = list(ADDRS_OK)
    try:
        strs = L.split_strings(spec.opts)
        for i in range(0, len(strs) - 1):
            if strs[i] == b'source-address':
                inner = L.split_strings(strs[i + 1])
                if len(inner) == 1 and addr_list_ok(inner[0]) and inner[0] not in out:
                    out.append(inner[0])
    except L.ParseError:
        pass
    return out


def subject_key_ok(env, spec):
    """does the subject key material decode under the key type the certificate algorithm names?"""
    kk = MODEL_CERT_ALGS.get(spec.alg)
    if kk is None or len(spec.key) != kk[1]:
        return False
    try:
        env.a.public_key.decode_ssh_public_key(S(kk[0]) + b''.join(S(f) for f in spec.key))
        return True
    except Exception:
        return False


def fallback_calls(env, blob):
    """When the recorder cannot be installed: recompute what construct() would have asked."""
    try:
        spec, sig = L.parse_cert(blob, nkey)
        k = env.a.public_key.decode_ssh_public_key(spec.cakey)
        return [(spec.cakey, spec.tbs(), sig, bool(k.verify(spec.tbs(), sig)))], [spec.cakey]
    except Exception:
        return [], []


def decode_options_cases(env, oraw, eraw):
    """SSHOpenSSHCertificate._decode_options on its own (private; skipped when absent)."""
    out = []
    try:
        C = env.a.public_key.SSHOpenSSHCertificateV01
        f = C._decode_options
        tabs = ((oraw, C._user_option_decoders, True, False), (eraw, C._user_extension_decoders, False, True),
                (oraw, C._user_extension_decoders, False, True), (eraw, C._user_option_decoders, True, False))
    except AttributeError:
        return out
    for raw, dec, critical, ext in tabs:
        try:
            r = f(raw, dec, critical)
            slots = []
            for n in L.OPT_NAMES:
                v = r.get(n.decode())
                slots.append(None if v is None else (v.encode() if isinstance(v, str) else b''))
        except (env.a.KeyImportError, env.a.packet.PacketDecodeError if hasattr(env.a, 'packet') else ValueError, ValueError):
            slots = None
        except Exception as e:
            if type(e).__name__ == 'PacketDecodeError':
                slots = None
            else:
                raise
        out.append('(%s, %s, %s, %s, %s)' % (cbool(critical), cbool(ext), zl(raw),
                                                 clist(ADDRS_OK, zl), copt(slots, lambda s: clist(s, lambda x: copt(x, zl)))))
    return out


# ================================================================================================
# stage: SSHSIG and allowed signers

def my_wmatch(p, s):
    if not p:
        return not s
    if p[0] == '*':
        return any(my_wmatch(p[1:], s[i:]) for i in range(len(s) + 1))
    return bool(s) and (p[0] == '?' or p[0] == s[0]) and my_wmatch(p[1:], s[1:])


def my_patlist(pl, v):
    return any(not n and my_wmatch(p, v) for n, p in pl) and not any(n and my_wmatch(p, v) for n, p in pl)


class Entry:
    def __init__(self, princ, ca, ns, va, vb, key):
        self.princ, self.ca, self.ns, self.va, self.vb, self.key = princ, ca, ns, va, vb, key

    def line(self, quote=True, case=None):
        """case: None = names as documented (lower case); else a function name -> spelling (option names are
        case-insensitive, as in OpenSSH)"""
        q = '"' if quote else ''
        nm = case or (lambda x: x)
        opts = []
        if self.ca:
            opts.append(nm('cert-authority'))
        if self.ns is not None:
            opts.append(nm('namespaces') + '="%s"' % ','.join(('!' if n else '') + p for n, p in self.ns))
        if self.va is not None:
            opts.append(nm('valid-after') + '=' + q + L.ts_string(self.va) + q)
        if self.vb is not None:
            opts.append(nm('valid-before') + '="%s"' % L.ts_string(self.vb))
        return ' '.join([','.join(('!' if n else '') + p for n, p in self.princ)] + ([','.join(opts)] if opts else []) +
                        [self.key.export_public_key().decode().strip()])

    def coq(self):
        return '(mkAS %s %s %s %s %s %s)' % (coq_patlist(self.princ), cbool(self.ca), copt(self.ns, coq_patlist),
                                             copt(self.va, cz), copt(self.vb, cz), zl(self.key.public_data))

    def matches(self, principal, ns, now):
        return (my_patlist(self.princ, principal) and (self.ns is None or my_patlist(self.ns, ns)) and
                (self.va is None or now >= self.va) and (self.vb is None or now < self.vb))


T0 = 1700000000


def gen_patlist(rng, pool):
    pl = []
    for _ in range(rng.randrange(1, 3)):
        pl.append((rng.random() < 0.2, rng.choice(pool)))
    return pl


def feed_fifo(path, bursts, gap=0.05):
    """writer thread: delivers the bursts one write each, with a pause between them"""
    import threading
    import time as _t

    def w():
        try:
            fd = os.open(path, os.O_WRONLY)
            try:
                for i, b in enumerate(bursts):
                    if i:
                        _t.sleep(gap)
                    os.write(fd, b)
            finally:
                os.close(fd)
        except OSError:
            pass
    t = threading.Thread(target=w, daemon=True)
    t.start()
    return t


def stage_message_sources(ctx, env, tmp):
    import pathlib
    a = env.a
    rng = ctx.rng
    key = env.user
    line = ('alice ' + key.export_public_key().decode().strip() + '\n').encode()
    sizes = [0, 5, 300, 8192, 65536, 65537, 200000, 1200000]
    sd_cases = []
    n = 0
    for size in sizes:
        msg = bytes(rng.randrange(256) for _ in range(min(size, 4096))) * (size // 4096 + 1)
        msg = msg[:size]
        k = max(1, size // 3)
        bursts = [msg[i:i + k] for i in range(0, size, k)] or [b'']
        reg = os.path.join(tmp, 'msg%d' % size)
        with open(reg, 'wb') as f:
            f.write(msg)
        fifo = os.path.join(tmp, 'fifo%d' % size)
        os.mkfifo(fifo)

        def via(kind):
            """-> (argument for the API, writer thread or None)"""
            if kind == 'bytes':
                return msg, None
            if kind == 'str_path':
                return reg, None
            if kind == 'purepath':
                return pathlib.PurePath(reg), None
            return fifo, feed_fifo(fifo, bursts)
        kinds = ['bytes', 'str_path', 'purepath', 'fifo']
        sig_ref = env.sshsig_blob(key, None, msg)
        for ck in kinds:
            arg, th = via(ck)
            try:
                raw = a.create_sshsig(a.load_keypairs([key]), arg, raw=True)
            except Exception as e:
                raw = None
                ctx.failing_input(f'create_sshsig with the message given as {ck} ({size} bytes) raises {e!r}',
                                  dict(kind='sshsig_source', size=size, how=ck, op='create'))
            if th:
                th.join(10)
            for vk in kinds:
                if raw is None or (ck != 'bytes' and vk != 'bytes' and ck != vk and size > 70000):
                    continue
                arg2, th2 = via(vk)
                try:
                    ok = bool(a.validate_sshsig(arg2, raw, 'alice', line))
                except Exception as e:
                    ok = 'raised ' + type(e).__name__
                if th2:
                    th2.join(10)
                n += 1
                ctx.count('sshsig_source.%s_then_%s' % (ck, vk))
                if ok is not True:
                    ctx.failing_input(f'SSHSIG made over a {size}-byte message supplied as {ck} does not validate when the same bytes '
                                      f'are supplied as {vk} ({ok}; FIFO delivers {len(bursts)} bursts)',
                                      dict(kind='sshsig_source', size=size, how=ck, how_validate=vk, op='roundtrip'))
            # a signature over the first burst only must not validate for the whole message, however supplied
            if size >= 300 and len(bursts) > 1:
                sig_prefix = env.sshsig_blob(key, None, bursts[0])
                for vk in ('bytes', 'fifo', 'str_path'):
                    arg2, th2 = via(vk)
                    try:
                        ok = bool(a.validate_sshsig(arg2, sig_prefix, 'alice', line))
                    except Exception:
                        ok = False
                    if th2:
                        th2.join(10)
                    n += 1
                    if ok:
                        ctx.failing_input(f'a signature over the first {len(bursts[0])} bytes validates for the whole {size}-byte '
                                          f'message supplied as {vk} ({len(bursts)} bursts)',
                                          dict(kind='sshsig_source', size=size, how_validate=vk, op='prefix'))
            ctx.note_case(('sshsig_source', size, ck), nontrivial=size > 0)
        # model correspondence of _signed_data for the path forms (small messages only: Coq literals)
        if size <= 300:
            sdf = getattr(a.sshsig, '_signed_data', None)
            for how in ('str_path', 'fifo'):
                for ih in (False, True):
                    if sdf is None:
                        continue
                    arg, th = via(how)
                    try:
                        sd = sdf(arg, ih, b'sha256', 'file')
                    except ValueError:
                        sd = None
                    if th:
                        th.join(10)
                    chunks = bursts if how == 'fifo' else [msg]
                    dg = [(x.encode(), hashlib.new(x, msg).digest()) for x in ('sha256', 'sha512')]
                    sd_cases.append('(%s, %s, %s, %s, %s, %s)' % (clist(chunks, zl), cbool(ih), zl(b'sha256'), zl(b'file'),
                                                               clist(dg, lambda d: '(%s, %s)' % (zl(d[0]), zl(d[1]))), copt(sd, zl)))
    ctx.cov['oracle']['sshsig_message_source_checks'] = n
    submit(ctx, 'signed_data_path', 'chk_signed_data_path', sd_cases,
           'list bytes * bool * bytes * bytes * list (bytes * bytes) * option bytes', 200)


def stage_sshsig(ctx, env):
    rng = ctx.rng
    thorough = ctx.tier == 'thorough'
    a = env.a
    tmp = tempfile.mkdtemp(prefix='c16s-', dir='/var/tmp')
    try:
        _stage_sshsig(ctx, env, rng, thorough, a, tmp)
    finally:
        shutil.rmtree(tmp, ignore_errors=True)


def _stage_sshsig(ctx, env, rng, thorough, a, tmp):
    cases, sd_cases, as_cases = [], [], []
    PR = ['alice', 'ali*', '*', 'bob', 'a?ice', '*@example.com', 'alice@example.com', 'rémi', 'r?mi', '']
    NS = ['file', 'git', 'f*', '*', 'email', 'fil?', '']
    principals = ['alice', 'bob', 'alice@example.com', 'rémi', 'mallory', 'alic']
    namespaces = ['file', 'git', 'email', 'filé']
    signers = [('ssh-ed25519', env.user), ('ssh-ed25519', env.user2)] + [(k, v) for k, v in env.keys.items()]
    kg_runs = kg_dis = 0
    outcomes = {}
    n = 1500 if thorough else 360
    for i in range(n):
        salg, key = rng.choice(signers[:2]) if rng.random() < 0.6 else rng.choice(signers)
        msg = rng.choice([b'', b'hello', b'The quick brown fox\n', bytes(rng.randrange(256) for _ in range(50))])
        ns = rng.choice(namespaces)
        hname = rng.choice(['sha512', 'sha256'])
        principal = rng.choice(principals)
        # signer: plain key or certificate
        cert = None
        cspec = None
        ckind = 'key'
        r = rng.random()
        if r < 0.45:
            ckind = rng.choice(['user', 'user', 'user', 'host', 'expired', 'notyet', 'noprinc', 'otherca'])
            ca = env.ca2 if ckind == 'otherca' else env.ca
            cp = rng.choice([[principal], ['alice', 'bob'], ['zed']]) if ckind != 'noprinc' else []
            va, vb = {'expired': (T0 - 1000, T0 - 10), 'notyet': (T0 + 10, T0 + 1000)}.get(ckind, (T0 - 1000, T0 + 1000))
            gen = ca.generate_host_certificate if ckind == 'host' else ca.generate_user_certificate
            cert = gen(key, 'signer', principals=cp, valid_after=va, valid_before=vb)
            cspec, _ = L.parse_cert(cert.public_data, nkey)
        try:
            raw = env.sshsig_blob(key, cert, msg, namespace=ns, hash_name=hname)
        except Exception as e:
            ctx.broke('harness:create_sshsig', repr(e))
            continue
        # allowed signers
        entries = []
        if rng.random() < 0.45:     # an entry written to authorise this signer (options may still exclude it)
            via_ca = cert is not None and rng.random() < 0.7
            entries.append(Entry(rng.choice([[(False, principal)], [(False, '*')], [(False, principal[:2] + '*'), (True, 'mallory')]]),
                                 via_ca, rng.choice([None, None, [(False, ns)], [(False, 'git'), (False, 'f*')]]),
                                 rng.choice([None, None, T0 - 100, T0]), rng.choice([None, None, T0 + 100, T0 + 1]),
                                 (env.ca2 if ckind == 'otherca' else env.ca) if via_ca else key))
        for _ in range(rng.randrange(1, 4) if not entries else rng.randrange(0, 3)):
            k = rng.random()
            ekey = key if k < 0.5 else (env.ca if k < 0.8 else rng.choice([env.user2, env.ca2, env.user]))
            e_ca = (ekey in (env.ca, env.ca2) and rng.random() < 0.8) or rng.random() < 0.1
            pl = gen_patlist(rng, PR) if rng.random() < 0.6 else [(False, principal)]
            if pl == [(False, '')]:
                pl = [(False, '*')]       # a line cannot start with an empty principals field
            nsl = None if rng.random() < 0.5 else gen_patlist(rng, NS)
            eva = None if rng.random() < 0.7 else T0 + rng.choice([-100, 0, 100])
            evb = None if rng.random() < 0.7 else T0 + rng.choice([-100, 0, 1, 100])
            entries.append(Entry(pl, e_ca, nsl, eva, evb, ekey))
        def spell(name):     # documented spelling, or any letter case
            r_ = rng.random()
            return name if r_ < 0.5 else name.upper() if r_ < 0.65 else name.title() if r_ < 0.8 else \
                ''.join(c.upper() if rng.random() < 0.5 else c for c in name)
        spellings = {}

        def spell_once(name):
            return spellings.setdefault(name, spell(name))
        text = ''.join(e.line(rng.random() < 0.5, spell_once) + '\n' for e in entries)
        kg_text = ''.join(e.line(True, spell_once) + '\n' for e in entries)
        if any(v != k for k, v in spellings.items()):
            ctx.count('sshsig.option_name_not_lower_case')
        if rng.random() < 0.1:
            text = '# comment\n\n' + text + 'bob ssh-ed25519 AAAAnotbase64!!\n'
        now = T0 + rng.choice([0, 0, -100, 100, -1, 1, 99, -101, -11, -10, 10, 9, 1000, 999, -1000, -1001])
        # alterations
        alt = rng.choice(['none', 'none', 'none', 'msg', 'sigbyte', 'ns', 'ns_resigned', 'hash', 'version', 'magic', 'reserved',
                          'badhash', 'emptyns', 'trunc', 'trail', 'prehashed', 'prehashed_bad', 'otherkey'])
        vmsg, is_hashed, vraw = msg, False, raw
        rd = L.Rd(raw)
        rd.take(6)
        ver = rd.u32()
        pubdata, nsb, rsv, hn, sigb = rd.s(), rd.s(), rd.s(), rd.s(), rd.s()

        def rebuild(ver=ver, pubdata=pubdata, nsb=nsb, rsv=rsv, hn=hn, sigb=sigb, magic=b'SSHSIG'):
            return magic + u32(ver) + S(pubdata) + S(nsb) + S(rsv) + S(hn) + S(sigb)
        if alt == 'msg':
            vmsg = msg + b'!' if rng.random() < 0.5 or not msg else bytes([msg[0] ^ 1]) + msg[1:]
        elif alt == 'sigbyte':
            j = rng.randrange(len(raw))
            vraw = raw[:j] + bytes([raw[j] ^ (1 << rng.randrange(8))]) + raw[j + 1:]
        elif alt == 'ns':
            vraw = rebuild(nsb=rng.choice([x for x in (b'git', b'file', b'email', b'\xff') if x != nsb]))
        elif alt == 'ns_resigned':
            ns = rng.choice(namespaces)
            vraw = env.sshsig_blob(key, cert, msg, namespace=ns, hash_name=hname)
        elif alt == 'hash':
            vraw = rebuild(hn=b'sha256' if hn == b'sha512' else b'sha512')
        elif alt == 'version':
            vraw = rebuild(ver=rng.choice([0, 2, 2 ** 32 - 1]))
        elif alt == 'magic':
            vraw = rebuild(magic=rng.choice([b'SSHSIH', b'sshsig', b'SSHSI']))
        elif alt == 'reserved':
            vraw = rebuild(rsv=b'x')
        elif alt == 'badhash':
            vraw = rebuild(hn=rng.choice([b'sha1', b'md5', b'', b'SHA512']))
        elif alt == 'emptyns':
            vraw = rebuild(nsb=b'')
        elif alt == 'trunc':
            vraw = raw[:rng.randrange(len(raw))]
        elif alt == 'trail':
            vraw = raw + rng.choice([b'\0', S(b'')])
        elif alt == 'prehashed':
            vmsg, is_hashed = hashlib.new(hname, msg).digest(), True
        elif alt == 'prehashed_bad':
            vmsg, is_hashed = hashlib.new(hname, msg).digest()[:-1], True
        elif alt == 'otherkey':
            vraw = rebuild(pubdata=env.user2.public_data if key is not env.user2 else env.user.public_data)
        with L.Recorder() as rec, L.clock(now):
            try:
                got = 0 if a.validate_sshsig(vmsg, vraw, principal, text.encode(), is_hashed=is_hashed) else 1
            except ValueError:
                got = 2
            except Exception as e:
                ctx.count('sshsig_raised.' + type(e).__name__, group='oracle')
                continue
        outcomes[got] = outcomes.get(got, 0) + 1
        if got == 0:
            ctx.count('sshsig_accept_signer.' + ('key' if cert is None else 'certificate'))
        ctx.count('sshsig.%s.%s' % (alt if alt != 'none' else 'intact', ('accept', 'reject', 'valueerror')[got]))
        ctx.note_case(('sshsig', salg, ckind, alt, ns, hname, principal, tuple(e.line()[:60] for e in entries), now, len(msg)), nontrivial=True)
        digests = [(h.encode(), hashlib.new(h, vmsg).digest()) for h in ('sha256', 'sha512')]
        if rec.odd_exc:
            ctx.count('sshsig_key_decoder_raised_undocumented_exception', group='oracle')
        if rec.available and not rec.odd_exc:
            cases.append('(%s, %s, %s, %s, %s, %s, %s, %s, %s, %s, %s)' % (
                zl(vmsg), cbool(is_hashed), zl(vraw), zs(principal),
                clist(entries, lambda e: e.coq()), cz(now), coq_calls(rec.sig_calls), clist(rec.pub_ok, zl),
                clist(ADDRS_OK, zl), clist(digests, lambda d: '(%s, %s)' % (zl(d[0]), zl(d[1]))), cz(got)))
        # direct oracle: what the property allows
        intact_sig = alt in ('none', 'ns_resigned', 'prehashed', 'reserved')
        key_auth = any((not e.ca) and e.key is key and e.matches(principal, ns, now) for e in entries)
        ca_auth = cert is not None and ckind != 'otherca' and any(
            e.ca and e.key is env.ca and e.matches(principal, ns, now) for e in entries)
        if ckind == 'otherca':
            ca_auth = cert is not None and any(e.ca and e.key is env.ca2 and e.matches(principal, ns, now) for e in entries)
        cert_fine = cspec is not None and cspec.va <= now < cspec.vb and \
            (not L.split_strings(cspec.princ) or principal.encode() in L.split_strings(cspec.princ))
        allowed = intact_sig and (key_auth or (ca_auth and cert_fine and cspec.typ == 1))
        if got == 0 and not allowed:
            if intact_sig and ca_auth and cert_fine and cspec.typ == 2 and not key_auth:
                what = ('SSHSIG signature made with a HOST certificate is accepted through a cert-authority allowed-signers '
                        'entry (certificate type does not match the use; ssh-keygen -Y verify refuses it)')
            else:
                what = (f'SSHSIG validates although it should not: alteration={alt} signer={ckind} principal={principal!r} '
                        f'namespace={ns!r} now-T0={now - T0} allowed_signers={text!r}')
            ctx.failing_input(what, dict(kind='sshsig', msg=vmsg.hex(), sig=vraw.hex(), principal=principal, signers=text,
                                         now=now, is_hashed=is_hashed, expect='reject', signer=ckind, alteration=alt))
        if got != 0 and alt == 'none' and (key_auth or (ca_auth and cert_fine and cspec.typ == 1)):
            ctx.failing_input(f'untampered SSHSIG from an authorised signer is not validated (result {got}): signer={ckind} '
                              f'principal={principal!r} namespace={ns!r} allowed_signers={text!r}',
                              dict(kind='sshsig', msg=vmsg.hex(), sig=vraw.hex(), principal=principal, signers=text, now=now,
                                   is_hashed=is_hashed, expect='accept', signer=ckind, alteration=alt))
        # ssh-keygen -Y verify as a second opinion on untampered, plain cases
        if L.KEYGEN and alt in ('none', 'msg', 'ns_resigned') and salg in ('ssh-ed25519', 'ssh-rsa', 'ecdsa-sha2-nistp256') \
                and principal.isascii() and ns.isascii() and (thorough or kg_runs < 40) and '# comment' not in text \
                and all(p.isascii() and p for e in entries for _, p in e.princ + (e.ns or [])):
            arm = b'-----BEGIN SSH SIGNATURE-----\n' + base64.encodebytes(vraw) + b'-----END SSH SIGNATURE-----\n'
            kg = L.keygen_verify(tmp, vmsg, arm, kg_text, principal, ns, when=now)
            if kg is not None:
                kg_runs += 1
                if kg != (got == 0):
                    kg_dis += 1
                    plain_entry_for_cert = cert is not None and key_auth
                    no_princ = cspec is not None and not cspec.princ
                    if got == 0 and not kg and not plain_entry_for_cert and not no_princ \
                            and not (cspec is not None and cspec.typ == 2):
                        ctx.failing_input('asyncssh validates an SSHSIG that ssh-keygen -Y verify refuses',
                                          dict(kind='sshsig', msg=vmsg.hex(), sig=vraw.hex(), principal=principal, signers=text,
                                               now=now, is_hashed=is_hashed, expect='reject', signer=ckind, alteration=alt,
                                               oracle='ssh-keygen'))
                    else:
                        ctx.count('ssh_keygen_Y_disagreements.' + (
                            'asyncssh_stricter' if got != 0 else 'cert_signer_plain_key_entry' if plain_entry_for_cert else
                            'cert_without_principals' if no_princ else 'host_cert'), group='oracle')
        # the pieces on their own
        if i % 4 == 0:
            for ih, m in ((False, vmsg), (True, hashlib.new(hname, vmsg).digest()), (True, b'short')):
                for h, nsb2 in ((hname.encode(), ns.encode()), (b'sha1', b'file'), (hname.encode(), b'')):
                    try:
                        sd = a.sshsig._signed_data(m, ih, h, nsb2.decode())
                    except ValueError:
                        sd = None
                    except AttributeError:
                        break
                    dg = [(x.encode(), hashlib.new(x, m).digest()) for x in ('sha256', 'sha512')]
                    sd_cases.append('(%s, %s, %s, %s, %s, %s)' % (zl(m), cbool(ih), zl(h), zl(nsb2),
                                                                   clist(dg, lambda d: '(%s, %s)' % (zl(d[0]), zl(d[1]))), copt(sd, zl)))
            try:
                aso = a.import_allowed_signers(text)
                for kk in (key, env.ca):
                    for caflag in (False, True):
                        with L.clock(now):
                            r_ = bool(aso.validate(env.public(kk), principal, ns, caflag))
                        as_cases.append('(%s, %s, %s, %s, %s, %s, %s)' % (clist(entries, lambda e: e.coq()), zl(kk.public_data),
                                                                          zs(principal), zs(ns), cz(now), cbool(caflag), cbool(r_)))
                        ctx.count('allowed_signers.' + ('match' if r_ else 'nomatch'))
            except (ValueError, AttributeError):
                pass
        if i < 2:
            ctx.sample({'sshsig': {'signer': ckind, 'keytype': salg, 'alteration': alt, 'principal': principal, 'namespace': ns,
                                   'allowed_signers': text, 'now_minus_T0': now - T0, 'result': ('accept', 'reject', 'ValueError')[got]}})
    ctx.cov['oracle']['ssh_keygen_Y_runs'] = kg_runs
    ctx.cov['oracle']['ssh_keygen_Y_disagreements'] = kg_dis
    if min(outcomes.get(0, 0), outcomes.get(1, 0), outcomes.get(2, 0)) < 3:
        ctx.broke('vacuity:sshsig', f'outcomes {outcomes}')
    d = ctx.cov['distribution']
    if not d.get('sshsig_accept_signer.key') or not d.get('sshsig_accept_signer.certificate'):
        ctx.broke('vacuity:sshsig', 'no accepted case for a key signer / a certificate signer')
    if not d.get('allowed_signers.match') or not d.get('allowed_signers.nomatch'):
        ctx.broke('vacuity:allowed_signers', 'no match / no mismatch generated')
    for name, chk, cs, ty, shard in (
            ('sshsig', 'chk_sshsig', cases, 'bytes * bool * bytes * list Z * list as_entry * Z * sig_calls * list bytes '
                                            '* list bytes * list (bytes * bytes) * Z', 40),
            ('signed_data', 'chk_signed_data', sd_cases, 'bytes * bool * bytes * bytes * list (bytes * bytes) * option bytes', 200),
            ('allowed_signers', 'chk_as_validate', as_cases, 'list as_entry * bytes * list Z * list Z * Z * bool * bool', 200)):
        submit(ctx, name, chk, cs, ty, shard)

    # targeted: certificate kinds through a cert-authority line (deterministic, every run)
    ca_line = 'alice cert-authority ' + env.ca.export_public_key().decode().strip() + '\n'
    t_cases = []
    for ckind, gen, kw, expect in (
            ('user', env.ca.generate_user_certificate, dict(principals=['alice']), True),
            ('user_no_principals', env.ca.generate_user_certificate, dict(principals=[]), True),
            ('host', env.ca.generate_host_certificate, dict(principals=['alice']), False),
            ('expired', env.ca.generate_user_certificate, dict(principals=['alice'], valid_after=T0 - 100, valid_before=T0 - 1), False),
            ('not_yet_valid', env.ca.generate_user_certificate, dict(principals=['alice'], valid_after=T0 + 1, valid_before=T0 + 100), False),
            ('other_principal', env.ca.generate_user_certificate, dict(principals=['bob']), False),
            ('other_ca', env.ca2.generate_user_certificate, dict(principals=['alice']), False)):
        cert = gen(env.user, 'targeted', **kw)
        raw = env.sshsig_blob(env.user, cert, b'payload')
        with L.Recorder() as rec, L.clock(T0):
            try:
                ok = bool(a.validate_sshsig(b'payload', raw, 'alice', ca_line.encode()))
                got = 0 if ok else 1
            except ValueError:
                ok, got = False, 2
        if rec.available and not rec.odd_exc:
            dg = [(h.encode(), hashlib.new(h, b'payload').digest()) for h in ('sha256', 'sha512')]
            t_cases.append('(%s, %s, %s, %s, %s, %s, %s, %s, %s, %s, %s)' % (
                zl(b'payload'), cbool(False), zl(raw), zs('alice'), clist([Entry([(False, 'alice')], True, None, None, None, env.ca)],
                                                                         lambda e: e.coq()),
                cz(T0), coq_calls(rec.sig_calls), clist(rec.pub_ok, zl), clist(ADDRS_OK, zl),
                clist(dg, lambda d: '(%s, %s)' % (zl(d[0]), zl(d[1]))), cz(got)))
        ctx.count('sshsig_targeted.%s.%s' % (ckind, 'accept' if ok else 'reject'))
        ctx.note_case(('sshsig_targeted', ckind), nontrivial=True)
        if ok != expect:
            what = {'host': 'SSHSIG signature made with a HOST certificate is accepted through a cert-authority allowed-signers '
                            'entry (certificate type does not match the use; ssh-keygen -Y verify refuses it)'}.get(
                ckind, f'SSHSIG by a {ckind} certificate through a cert-authority entry: validated={ok}, expected {expect}')
            ctx.failing_input(what, dict(kind='sshsig', msg=b'payload'.hex(), sig=raw.hex(), principal='alice', signers=ca_line,
                                         now=T0, is_hashed=False, expect='accept' if expect else 'reject', signer=ckind,
                                         alteration='none'))

    # targeted: near misses of principals and namespaces (case, unicode case folding, trailing dot, whitespace)
    upub = env.user.export_public_key().decode().strip()
    near = [('release@example.com', None, 'release@example.com', 'file', True), ('release@example.com', None, 'Release@example.com', 'file', False),
            ('Release@example.com', None, 'release@example.com', 'file', False), ('*@example.com', None, 'bob@EXAMPLE.COM', 'file', False),
            ('alice', 'file', 'alice', 'file', True), ('alice', 'file', 'alice', 'File', False), ('alice', 'FILE', 'alice', 'file', False),
            ('alice', 'f*', 'alice', 'FILE', False), ('alice', None, 'alice.', 'file', False), ('alice.', None, 'alice', 'file', False),
            ('alice', None, 'alice ', 'file', False), ('alice', None, ' alice', 'file', False), ('rémi', None, 'RÉMI', 'file', False),
            ('RÉMI', None, 'rémi', 'file', False), ('straße', None, 'STRASSE', 'file', False), ('alice', 'file', 'alice', 'file.', False),
            ('alice', 'git,file', 'alice', 'Git', False), ('a*,!alice', None, 'Alice', 'file', False), ('a*', None, 'aLICE', 'file', True)]
    kg_near = 0
    for ppat, nspat, ident, nsname, expect in near:
        ent = Entry([(t.startswith('!'), t.lstrip('!')) for t in ppat.split(',')], False,
                    None if nspat is None else [(False, t) for t in nspat.split(',')], None, None, env.user)
        line = ent.line() + '\n'
        raw = env.sshsig_blob(env.user, None, b'payload', namespace=nsname)
        with L.Recorder() as rec:
            try:
                ok = bool(a.validate_sshsig(b'payload', raw, ident, line.encode()))
                got = 0 if ok else 1
            except ValueError:
                ok, got = False, 2
        if rec.available and not rec.odd_exc:
            dg = [(h.encode(), hashlib.new(h, b'payload').digest()) for h in ('sha256', 'sha512')]
            t_cases.append('(%s, %s, %s, %s, %s, %s, %s, %s, %s, %s, %s)' % (
                zl(b'payload'), cbool(False), zl(raw), zs(ident), clist([ent], lambda e: e.coq()), cz(T0), coq_calls(rec.sig_calls),
                clist(rec.pub_ok, zl), clist(ADDRS_OK, zl), clist(dg, lambda d: '(%s, %s)' % (zl(d[0]), zl(d[1]))), cz(got)))
        ctx.count('sshsig_near_miss.' + ('accept' if ok else 'reject'))
        ctx.note_case(('sshsig_near', ppat, nspat, ident, nsname), nontrivial=True)
        if ok != expect:
            ctx.failing_input(f'allowed-signers entry for principals {ppat!r} namespaces {nspat!r}: signature by identity {ident!r} in '
                              f'namespace {nsname!r} {"validates" if ok else "is refused"} (principal and namespace matching is exact, '
                              'case-sensitive wildcard matching)',
                              dict(kind='sshsig', msg=b'payload'.hex(), sig=raw.hex(), principal=ident, signers=line, now=None,
                                   is_hashed=False, expect='accept' if expect else 'reject', signer='key', alteration='near_miss'))
        if L.KEYGEN and (ppat + (nspat or '') + ident + nsname).isascii() and ident == ident.strip():
            arm = b'-----BEGIN SSH SIGNATURE-----\n' + base64.encodebytes(raw) + b'-----END SSH SIGNATURE-----\n'
            kg = L.keygen_verify(tmp, b'payload', arm, line, ident, nsname)
            if kg is not None:
                kg_near += 1
                if kg != ok:
                    ctx.count('ssh_keygen_Y_disagreements.near_miss', group='oracle')
                    if ok and not kg:
                        ctx.failing_input(f'asyncssh validates identity {ident!r} / namespace {nsname!r} against {line!r}; '
                                          'ssh-keygen -Y verify refuses it',
                                          dict(kind='sshsig', msg=b'payload'.hex(), sig=raw.hex(), principal=ident, signers=line, now=None,
                                               is_hashed=False, expect='reject', signer='key', alteration='near_miss', oracle='ssh-keygen'))
    ctx.cov['oracle']['ssh_keygen_Y_near_miss_runs'] = kg_near

    # targeted: option NAMES in every letter case (flags and name=value forms); names are case-insensitive
    user_cert = env.ca.generate_user_certificate(env.user, 'optcase', principals=['alice'])
    opt_cases = []
    for sp in (str, str.upper, str.title, lambda x: x[:1].upper() + x[1:], lambda x: x[:-1] + x[-1:].upper(),
               lambda x: ''.join(c.upper() if i % 2 else c for i, c in enumerate(x))):
        plans = [
            # (entry, signer key, certificate, namespace, now, expected accept)
            (Entry([(False, 'alice')], True, None, None, None, env.ca), env.ca, None, 'file', T0, False),     # CA key signs directly
            (Entry([(False, 'alice')], True, None, None, None, env.ca), env.user, user_cert, 'file', T0, True),
            (Entry([(False, 'alice')], False, [(False, 'git')], None, None, env.user), env.user, None, 'file', T0, False),
            (Entry([(False, 'alice')], False, [(False, 'file')], None, None, env.user), env.user, None, 'file', T0, True),
            (Entry([(False, 'alice')], False, None, T0 + 100, None, env.user), env.user, None, 'file', T0, False),
            (Entry([(False, 'alice')], False, None, T0 - 100, None, env.user), env.user, None, 'file', T0, True),
            (Entry([(False, 'alice')], False, None, None, T0 - 100, env.user), env.user, None, 'file', T0, False),
            (Entry([(False, 'alice')], False, None, None, T0 + 100, env.user), env.user, None, 'file', T0, True)]
        for ent, skey, scert, nsname, now, expect in plans:
            line = ent.line(True, sp) + '\n'
            raw = env.sshsig_blob(skey, scert, b'payload', namespace=nsname)
            with L.Recorder() as rec, L.clock(now):
                try:
                    ok = bool(a.validate_sshsig(b'payload', raw, 'alice', line.encode()))
                    got = 0 if ok else 1
                except ValueError:
                    ok, got = False, 2
            if rec.available and not rec.odd_exc:
                dg = [(h.encode(), hashlib.new(h, b'payload').digest()) for h in ('sha256', 'sha512')]
                t_cases.append('(%s, %s, %s, %s, %s, %s, %s, %s, %s, %s, %s)' % (
                    zl(b'payload'), cbool(False), zl(raw), zs('alice'), clist([ent], lambda e: e.coq()), cz(now),
                    coq_calls(rec.sig_calls), clist(rec.pub_ok, zl), clist(ADDRS_OK, zl),
                    clist(dg, lambda d: '(%s, %s)' % (zl(d[0]), zl(d[1]))), cz(got)))
            ctx.count('sshsig_option_case.' + ('accept' if ok else 'reject'))
            ctx.note_case(('sshsig_optcase', line[:60], scert is not None, nsname), nontrivial=True)
            if ok != expect:
                ctx.failing_input(f'allowed-signers line {line.split(" ssh-")[0]!r} ...: signature by '
                                  f'{"the CA key itself" if skey is env.ca else "a certificate of that CA" if scert else "the listed key"} '
                                  f'{"validates" if ok else "is refused"} (option names are case-insensitive: this is '
                                  f'{"a cert-authority line" if ent.ca else "a restricted plain-key line"})',
                                  dict(kind='sshsig', msg=b'payload'.hex(), sig=raw.hex(), principal='alice', signers=line, now=now,
                                       is_hashed=False, expect='accept' if expect else 'reject', signer='key', alteration='option_case'))
            if L.KEYGEN:
                arm = b'-----BEGIN SSH SIGNATURE-----\n' + base64.encodebytes(raw) + b'-----END SSH SIGNATURE-----\n'
                kg = L.keygen_verify(tmp, b'payload', arm, line, 'alice', nsname, when=now)
                if kg is not None and kg != ok:
                    ctx.count('ssh_keygen_Y_disagreements.option_case', group='oracle')
                    if ok and not kg:
                        ctx.failing_input(f'asyncssh validates against {line.split(" ssh-")[0]!r}; ssh-keygen -Y verify refuses it',
                                          dict(kind='sshsig', msg=b'payload'.hex(), sig=raw.hex(), principal='alice', signers=line,
                                               now=now, is_hashed=False, expect='reject', signer='key', alteration='option_case',
                                               oracle='ssh-keygen'))
        # what the line parser files each spelling under
        ecls = getattr(a.sshsig, 'SSHAllowedSignersEntry', None)
        if ecls is not None:
            for code, name in enumerate(['cert-authority', 'namespaces', 'valid-after', 'valid-before', 'verify-required']):
                w = sp(name)
                arg = w if code in (0, 4) else w + ('="file"' if code == 1 else '="20231114221320Z"')
                try:
                    opts = ecls('alice ' + arg + ' ' + upub).options
                    hit = [c for c, n in enumerate(['cert-authority', 'namespaces', 'valid-after', 'valid-before']) if n in opts]
                    opt_cases.append('(%s, %d)' % (zs(w), hit[0] if hit else 4))
                except Exception:
                    ctx.count('allowed_signers_entry_unavailable', group='oracle')
    submit(ctx, 'as_option_names', 'chk_as_opt', opt_cases, 'list Z * Z', 400)

    # every way of supplying the message: bytes, str path, PurePath, FIFO fed in several bursts, empty, > 64 KiB, > 1 MiB.
    # The signed data depends only on the message bytes.
    stage_message_sources(ctx, env, tmp)

    submit(ctx, 'sshsig_targeted', 'chk_sshsig', t_cases, 'bytes * bool * bytes * list Z * list as_entry * Z * sig_calls * list bytes '
                                                          '* list bytes * list (bytes * bytes) * Z', 40)

    # every single-byte edit of a raw SSHSIG blob (implementation sweep)
    nsw = 0
    for salg, key in signers[1:] if thorough else signers[1:5]:
        raw = env.sshsig_blob(key, None, b'payload')
        line = 'alice ' + key.export_public_key().decode().strip() + '\n'
        if not a.validate_sshsig(b'payload', raw, 'alice', line.encode()):
            ctx.failing_input(f'untampered {salg} SSHSIG does not validate', dict(kind='sshsig', msg=b'payload'.hex(), sig=raw.hex(),
                                                                                  principal='alice', signers=line, now=None, is_hashed=False, expect='accept'))
        for j, m, r2 in edits(raw, [1, 0x80] if not thorough else [1, 4, 0x20, 0x80, 0xff]):
            nsw += 1
            try:
                ok = a.validate_sshsig(b'payload', r2, 'alice', line.encode())
            except ValueError:
                ok = False
            except Exception as e:
                ctx.count('sshsig_raised.' + type(e).__name__, group='oracle')
                ok = False
            # the reserved field is not covered by the signature in the SSHSIG format itself
            if ok:
                ctx.failing_input(f'{salg} SSHSIG still validates after changing byte {j} (xor {m:#x}) of the signature file',
                                  dict(kind='sshsig', msg=b'payload'.hex(), sig=r2.hex(), principal='alice', signers=line, now=None,
                                       is_hashed=False, expect='reject', offset=j))
        ctx.note_case(('sshsig_edit_sweep', salg, len(raw)), nontrivial=True)
    ctx.cov['oracle']['sshsig_single_byte_edits'] = nsw


# ================================================================================================
# stage: time values under several process time zones (each zone in its own subprocess)

ZONES = [('UTC0', 0), ('WST12', 43200), ('EST-14', -50400), ('XXX+5', 18000), ('IST-5:30', -19800)]
REL = [('+2h', 7200), ('-2h', -7200), ('-1d', -86400), ('90', 90), ('1w2d', 777600), ('now', 0), ('+30m', 1800), ('-0', 0)]
BAD_ABS = ['20231301', '20230230Z', '2023111424', '20231114236000Z', '20231114221360', '00000101Z', '20231100']
BAD = ['always', 'forever', 'tomorrow', '2023-11-14', '20231114T22Z']


def gen_timeval(rng, base):
    """-> (API value, Coq tspec, utc reading or None, kind) ; kind: int / absZ / abs / rel / bad"""
    import time as _t
    r = rng.random()
    if r < 0.12:
        return base, '(TInt %d)' % base, base, 'int'
    if r < 0.62:
        full = _t.strftime('%Y%m%d%H%M%S', _t.gmtime(base))
        n = rng.choice([14, 14, 14, 12, 10, 8, 9, 11, 13])
        ds = full[:n]
        z = rng.random() < 0.6
        padded = ds.ljust(14, '0')
        import calendar
        u = calendar.timegm((int(padded[0:4]), int(padded[4:6]), int(padded[6:8]), int(padded[8:10]), int(padded[10:12]),
                             int(padded[12:14]), 0, 0, 0))
        return ds + ('Z' if z else ''), '(TAbs %s %s)' % (zs(ds), cbool(z)), u, 'absZ' if z else 'abs'
    if r < 0.8:
        txt, d = rng.choice(REL)
        return txt, '(TRel %s)' % cz(d), d, 'rel'
    if r < 0.92:
        txt = rng.choice(BAD_ABS)
        z = txt.endswith('Z')
        return txt, '(TAbs %s %s)' % (zs(txt.rstrip('Z')), cbool(z)), None, 'bad'
    return rng.choice(BAD), 'TBad', None, 'bad'


def expected_time(tv, off, pnow):
    val, coq, u, kind = tv
    if kind in ('int', 'absZ'):
        return u
    if kind == 'abs':
        return u + off
    if kind == 'rel':
        return pnow + u
    return None


def run_zone(tz, cases, timeout=300):
    import json
    import subprocess
    env = dict(os.environ)
    env['PYTHONPATH'] = core.REPO + os.pathsep + core.VERIF
    p = subprocess.run([core.PY, '-m', 'harness.c16_tz'], input=json.dumps({'tz': tz, 'cases': cases}), capture_output=True,
                       text=True, timeout=timeout, cwd=core.VERIF, env=env)
    if p.returncode != 0:
        raise RuntimeError('time-zone worker failed: ' + p.stderr[-800:])
    return json.loads(p.stdout)


def stage_timezones(ctx, env):
    from concurrent.futures import ThreadPoolExecutor
    rng = ctx.rng
    ncase = 260 if ctx.tier == 'thorough' else 70
    plans = {}
    for tz, off in ZONES:
        cl = []
        for i in range(ncase):
            kind = 'cert' if i % 2 == 0 else 'signers'
            base = T0 + rng.choice([0, 0, 3600 * 7, -86400 * 3, 86400 * 200]) + rng.randrange(-50, 50)
            pnow = T0 + rng.randrange(-1000, 1000)
            which = rng.choice(['va', 'vb', 'both']) if i >= 8 else ['vb', 'vb', 'va', 'va'][i // 2]
            if i < 8:      # every zone, every run: a Z limit and a zone-less limit on each side, full precision
                import time as _t
                ds = _t.strftime('%Y%m%d%H%M%S', _t.gmtime(base))
                z = i % 2 == 0 or i in (1, 5)
                z = (i // 2) % 2 == 0 if kind == 'cert' else (i // 2) % 2 == 0
                tv = (ds + ('Z' if i % 4 < 2 else ''), '(TAbs %s %s)' % (zs(ds), cbool(i % 4 < 2)), base, 'absZ' if i % 4 < 2 else 'abs')
                which = 'vb' if i < 4 else 'va'
                tva, tvb = (tv, None) if which == 'va' else (None, tv)
            else:
                def draw(b):
                    tv = gen_timeval(rng, b)
                    while kind == 'signers' and tv[3] == 'int':     # a line holds text; digits there are a date
                        tv = gen_timeval(rng, b)
                    return tv
                tva = draw(base) if which in ('va', 'both') else None
                tvb = draw(base + (86400 if which == 'both' else 0)) if which in ('vb', 'both') else None
            nows = set()
            for tv in (tva, tvb):
                if tv is None or tv[2] is None:
                    continue
                u = tv[2] if tv[3] != 'rel' else pnow + tv[2]
                for k in (-1, 0, 1, off - 1, off, off + 1, -off - 1, -off, -off + 1, off // 2, -(off // 2)):
                    nows.add(u + k)
            if not nows:
                nows = {pnow}
            nows = sorted(n for n in nows if n > 0)
            if len(nows) > 8:
                nows = sorted(rng.sample(nows, 8))
            cl.append(dict(kind=kind, tva=tva, tvb=tvb, pnow=pnow, nows=nows))
        plans[tz] = cl

    def job(z):
        tz, off = z
        return run_zone(tz, [dict(kind=c['kind'], va=None if c['tva'] is None else c['tva'][0],
                                  vb=None if c['tvb'] is None else c['tvb'][0], pnow=c['pnow'], nows=c['nows'])
                             for c in plans[tz]])
    with ThreadPoolExecutor(max_workers=len(ZONES)) as ex:
        results = list(ex.map(job, ZONES))
    pt_cases, win_cases = [], []
    hit = {}
    for (tz, off), res in zip(ZONES, results):
        for c, r in zip(plans[tz], res):
            tva, tvb, pnow = c['tva'], c['tvb'], c['pnow']
            eva = None if tva is None else expected_time(tva, off, pnow)
            evb = None if tvb is None else expected_time(tvb, off, pnow)
            bad = (tva is not None and eva is None) or (tvb is not None and evb is None)
            forms = '/'.join(t[3] for t in (tva, tvb) if t)
            ctx.note_case(('tz', tz, c['kind'], None if tva is None else tva[0], None if tvb is None else tvb[0], pnow),
                          nontrivial=off != 0)
            rp = dict(kind='tz_window', tz=tz, off=off, case=dict(kind=c['kind'], va=None if tva is None else tva[0],
                                                                  vb=None if tvb is None else tvb[0], pnow=pnow))
            if c['kind'] == 'cert':
                lo, hi = (0 if eva is None else eva), (2 ** 64 - 1 if evb is None else evb)
                if r['err']:
                    if bad and r['err'] == 'ValueError':
                        for tv in (tva, tvb):
                            if tv is not None and expected_time(tv, off, pnow) is None and (tva is None or tvb is None):
                                pt_cases.append('(%s, %s, %s, None)' % (tv[1], cz(off), cz(pnow)))
                        ctx.count('tz.cert_generation_refused')
                    elif not bad and lo < hi and lo >= 0:
                        ctx.failing_input(f'TZ={tz}: certificate generation with valid_after={rp["case"]["va"]!r} '
                                          f'valid_before={rp["case"]["vb"]!r} fails with {r["err"]}', dict(rp, now=None, expect=0))
                    continue
                if bad:
                    ctx.failing_input(f'TZ={tz}: certificate generated from an unparsable time value ({rp["case"]})',
                                      dict(rp, now=None, expect=2))
                    continue
                for tv, got, exp, name in ((tva, r['va'], eva, 'valid_after'), (tvb, r['vb'], evb, 'valid_before')):
                    if tv is None:
                        continue
                    pt_cases.append('(%s, %s, %s, (Some %s))' % (tv[1], cz(off), cz(pnow), cz(got)))
                    if got != exp:
                        ctx.failing_input(f'TZ={tz} (UTC offset {-off}s): certificate generated with {name}={tv[0]!r} carries '
                                          f'{got}, but that time value denotes {exp} '
                                          f'({"UTC instant" if tv[3] == "absZ" else "local time" if tv[3] == "abs" else tv[3]})',
                                          dict(rp, now=None, expect=0, field=name, expected_value=exp))
                for now, got in zip(c['nows'], r['res']):
                    exp = 0 if lo <= now < hi else 1
                    win_cases.append('(%s, %s, %s, %s, %s, %s)' % (copt(tva, lambda t: t[1]), copt(tvb, lambda t: t[1]), cz(off),
                                                               cz(pnow), cz(now), cz(got)))
                    hit[(forms, exp)] = hit.get((forms, exp), 0) + 1
                    if got != exp:
                        ctx.failing_input(f'TZ={tz} (UTC offset {-off}s): certificate issued with valid_after={rp["case"]["va"]!r} '
                                          f'valid_before={rp["case"]["vb"]!r} is {"accepted" if got == 0 else "rejected"} at '
                                          f'{L.ts_string(now)} (window in UTC seconds [{lo},{hi}))', dict(rp, now=now, expect=exp))
            else:
                for now, got in zip(c['nows'], r['res']):
                    va = None if tva is None else expected_time(tva, off, now)
                    vb = None if tvb is None else expected_time(tvb, off, now)
                    exp = 2 if bad else (0 if (va is None or va <= now) and (vb is None or now < vb) else 1)
                    if isinstance(got, int):
                        win_cases.append('(%s, %s, %s, %s, %s, %s)' % (copt(tva, lambda t: t[1]), copt(tvb, lambda t: t[1]), cz(off),
                                                                   cz(now), cz(now), cz(got)))
                    hit[(forms, exp)] = hit.get((forms, exp), 0) + 1
                    if got != exp:
                        ctx.failing_input(f'TZ={tz} (UTC offset {-off}s): allowed-signers entry valid-after={rp["case"]["va"]!r} '
                                          f'valid-before={rp["case"]["vb"]!r}: signature {("validates", "is refused", "raises ValueError")[got] if isinstance(got, int) else got} '
                                          f'at {L.ts_string(now)}, expected {("validates", "refused", "ValueError")[exp]}',
                                          dict(rp, now=now, expect=exp))
            ctx.count('tz.%s.%s' % (tz, c['kind']))
    for f in ('absZ', 'abs', 'rel'):
        if not any(k[0] == f and k[1] == 0 for k in hit) or not any(k[0] == f and k[1] == 1 for k in hit):
            ctx.broke('vacuity:timezones', f'form {f}: no accept or no reject case; {sorted(hit)}')
    ctx.cov['oracle']['time_zone_checks'] = sum(hit.values())
    ctx.cov['oracle']['time_zones'] = [z for z, _ in ZONES]
    ctx.sample({'time_zone_case': {'tz': ZONES[1][0], 'case': {k: (v if not isinstance(v, tuple) else v[0]) for k, v in plans[ZONES[1][0]][0].items()}}})
    submit(ctx, 'parse_time', 'chk_parse_time', pt_cases, 'tspec * Z * Z * option Z', 400)
    submit(ctx, 'time_window', 'chk_time_window', win_cases, 'option tspec * option tspec * Z * Z * Z * Z', 400)


# ================================================================================================

def check_tables(ctx, env):
    """The model's certificate-algorithm table against the live registry (and probed field counts)."""
    reg = getattr(env.a.public_key, '_certificate_alg_map', None)
    if reg is not None:
        live = {k for k, (kh, ch) in reg.items() if kh is not None and not k.startswith(b'x509v3-')}
        if live != set(MODEL_CERT_ALGS):
            ctx.broke('table:cert_algs', f'registry {sorted(live ^ set(MODEL_CERT_ALGS))} differs from Model/Cert.v cert_alg_table')
    else:
        ctx.count('cert_alg_registry_unavailable', group='oracle')
    for alg, key in env.keys.items():
        kalg, fields = L.key_fields(key.public_data)
        for calg, (k2, n) in MODEL_CERT_ALGS.items():
            if k2 == kalg and n != len(fields):
                ctx.broke('table:cert_algs', f'{calg}: model says {n} key fields, encoder writes {len(fields)}')


def run(ctx):
    ctx.cov['rule'] = (
        'signatures: every generatable key type x every signature algorithm of the key x 3 messages, every byte position of '
        'the signature blob / message / public key blob xor several masks (all 255 in thorough for short blobs), every other '
        'registered algorithm name, every other key; certificates: real generator output for CA type x subject type, '
        'hand-built certificates (type, window, principals, critical options, extensions drawn from known/unknown/'
        'malformed alphabets) signed by a real CA, then wrong signer / altered after signing / length damage / single-byte '
        'edits, validated at window-boundary times with wanted type and principal; SSHSIG: signer kind (key, user/host/'
        'expired/not-yet/other-CA certificate) x allowed-signers entries (wildcard principals, namespaces, validity, '
        'cert-authority) x 17 alterations. A case is non-trivial when it reaches a decision (not a generator failure); '
        'distinct = distinct canonical input tuples')
    ctx.cov['trusted_base'] += [
        'cryptography is symbolic in the model: signature verification (sigok / verify_ssh), public-key blob validity, '
        'subject key material validity, hashing and IP-network parsing are Section variables; in the correspondence they '
        'are instantiated by the calls recorded from the real code (SSHKey.verify, decode_ssh_public_key wrappers installed '
        'in the harness process)',
        'PyCA/OpenSSL signature primitives are exercised only by the implementation sweep, not verified',
        'allowed-signers text parsing (OptionsParser, parse_time, import_public_key) is not modelled: the generator writes '
        'each line from a structured entry and the model receives the structure',
        'SSH key equality is modelled as equality of canonical public key blobs',
        'X.509 certificates, security-key (sk-*) signatures, SSHSIG armor/base64 and file inputs are outside the model',
        'time.time is replaced inside the harness process (virtual clock) for validity-window cases',
        'process time zones are fixed-offset POSIX TZ strings set in a subprocess per zone (no DST rules, no zoneinfo); '
        'strptime/mktime are modelled by civil_seconds + offset (Model/Cert.v) and tied by the parse_time/time_window correspondence',
    ]
    ctx.prove()
    env = Env(ctx)
    check_tables(ctx, env)
    stage_codecs(ctx, env)
    ctx.log('codecs done')
    stage_verify(ctx, env)
    ctx.log('verify done')
    stage_certs(ctx, env)
    ctx.log('certs done')
    stage_sshsig(ctx, env)
    ctx.log('sshsig done')
    stage_timezones(ctx, env)
    ctx.log('timezones done')
    run_jobs(ctx)
    o = ctx.cov['oracle']
    dev = []
    if o.get('rsa_same_hash_alias_names_accepted'):
        dev.append('RSA: a signature verifies under every registered algorithm name that selects the same hash '
                   '(rsa-sha2-256 / ssh-rsa-sha256@ssh.com / rsa2048-sha256, ...): same scheme, not reachable by a single-byte edit')
    if o.get('ssh_keygen_Y_disagreements.cert_signer_plain_key_entry'):
        dev.append('validate_sshsig matches the subject key of a certificate-signed SSHSIG against plain (non cert-authority) '
                   'allowed-signers entries and then does not look at the certificate (ssh-keygen does not match such entries)')
    if o.get('ssh_keygen_Y_disagreements.cert_without_principals'):
        dev.append('validate_sshsig accepts a certificate without principals for any principal (the property allows it; '
                   'ssh-keygen -Y verify requires a principals list)')
    exc = {k: v for k, v in o.items() if 'raised' in k or 'unexpected' in k}
    if any(exc.values()):
        dev.append('undocumented exception classes escape key/certificate decoding of damaged blobs (never an accept): ' + repr(exc))
    o['judged_deviations_not_violations'] = dev


def replay(rp):
    core.setup_paths()
    import asyncssh
    kind = rp.get('kind')
    if kind == 'verify':
        key = asyncssh.public_key.decode_ssh_public_key(bytes.fromhex(rp.get('otherkey') or rp['key']))
        msg = bytes.fromhex(rp['edited'] if rp.get('altered') == 'message' and rp.get('edited') else rp['msg'])
        sig = bytes.fromhex(rp['sig'])
        if rp.get('altered') == 'signature blob':
            sig = bytes.fromhex(rp['edited'])
        elif rp.get('altered') == 'algorithm name':
            r = L.Rd(sig)
            r.s()
            sig = S(bytes.fromhex(rp['newname'])) + r.rest()
        try:
            ok = bool(key.verify(msg, sig))
        except Exception as e:
            print('verify raised', repr(e))
            ok = False
        print('verify ->', ok)
        if rp.get('altered') == 'nothing':
            return 0 if ok else 1
        return 1 if ok else 0
    if kind in ('cert_import', 'cert_accept'):
        blob = bytes.fromhex(rp['blob'])
        try:
            cert = asyncssh.public_key.decode_ssh_certificate(blob)
        except Exception as e:
            print('import ->', type(e).__name__)
            cert = None
        accepted = cert is not None
        if accepted and kind == 'cert_accept':
            with L.clock(rp['now']):
                try:
                    cert.validate(rp['want'], rp['principal'])
                except ValueError as e:
                    print('validate ->', e)
                    accepted = False
        print('accepted' if accepted else 'rejected', '(expected %s)' % rp['expect'])
        return 1 if accepted != (rp['expect'] == 'accept') else 0
    if kind == 'sshsig_source':
        print('replay of message-source cases needs the FIFO writer; run ./check C16 (deterministic, every run)')
        return 2
    if kind == 'wmatch':
        from asyncssh.pattern import WildcardPatternList
        got = bool(WildcardPatternList(rp['patterns']).matches(rp['value']))
        print('matches ->', got, '(expected %s)' % rp['expect'])
        return 1 if got != rp['expect'] else 0
    if kind == 'tz_window':
        c = dict(rp['case'])
        c['nows'] = [rp['now']] if rp.get('now') is not None else [c['pnow']]
        r = run_zone(rp['tz'], [c])[0]
        print('TZ', rp['tz'], c, '->', r)
        if rp.get('field'):
            got = r['va'] if rp['field'] == 'valid_after' else r['vb']
            return 1 if got != rp['expected_value'] else 0
        if rp.get('now') is None:
            return 1 if bool(r.get('err')) != (rp['expect'] == 2) else 0
        return 1 if (r['res'] or [None])[0] != rp['expect'] else 0
    if kind == 'cert_extensions':
        blob = bytes.fromhex(rp['blob'])
        try:
            cert = asyncssh.public_key.decode_ssh_certificate(blob)
        except Exception as e:
            print('import ->', type(e).__name__)
            return 0
        spec, _ = L.parse_cert(blob, nkey)
        try:
            strs = L.split_strings(spec.exts)
            names = set(strs[0::2]) if len(strs) % 2 == 0 else None
        except L.ParseError:
            names = None
        granted = {n for n in L.EXT_BOOLS if cert.options.get(n.decode()) is not None}
        print('granted', sorted(granted), 'named in the signed field', None if names is None else sorted(names))
        return 1 if names is None or not granted <= names else 0
    if kind == 'sshsig':
        import contextlib
        cm = L.clock(rp['now']) if rp.get('now') is not None else contextlib.nullcontext()
        with cm:
            try:
                ok = bool(asyncssh.validate_sshsig(bytes.fromhex(rp['msg']), bytes.fromhex(rp['sig']), rp['principal'],
                                                   rp['signers'].encode(), is_hashed=rp.get('is_hashed', False)))
            except ValueError as e:
                print('validate_sshsig raised', e)
                ok = False
        print('validate_sshsig ->', ok, '(expected %s)' % rp['expect'])
        return 1 if ok != (rp['expect'] == 'accept') else 0
    print('replay of kind', kind, 'requires the full stage; run ./check C16')
    return 2
