"""C17 - Trust-file lookups follow the documented matching rules."""
import base64
import binascii
import hashlib
import hmac as _hmac
import ipaddress
import os
import re
import shutil
import struct
import subprocess
import tempfile

from .. import core
from .. import c17_ref as ref
from ..core import zl, zs, copt, cbool, clist, cz

IMPORTS = 'From AV Require Import Base.Prelude Model.Match Model.Options Corr.C17Corr.'
SSH_KEYGEN = shutil.which('ssh-keygen') or '/usr/bin/ssh-keygen'


_REPORTED = {}


def report(ctx, kind, what, replay, per_kind=1):
    """Report a failing input. One replay per kind of failure (kind = replay['kind']); further inputs of
    the same kind are only counted in coverage.oracle['failing.<kind>']."""
    fam = replay.get('kind', kind)
    ctx.count('failing.' + kind, group='oracle')
    n = _REPORTED.get(fam, 0)
    _REPORTED[fam] = n + 1
    if n < per_kind:
        if ctx.failing_input(what, replay) and ctx.violations > 5:
            # core writes replays for the first five violations only; keep one per kind anyway
            try:
                rel = ctx._write_replay(dict(replay, property=ctx.pid, what=what))
                print(f'VIOLATION property={ctx.pid} replay={rel}', flush=True)
            except Exception:
                pass
            ctx.log('   ' + what[:1500])


# ================================================================================================
# key material (deterministic; built without asyncssh)

def _s(b):
    return struct.pack('>I', len(b)) + b


def _mp(n):
    b = n.to_bytes((n.bit_length() + 8) // 8, 'big') if n else b''
    return _s(b)


def _b64(b):
    return base64.b64encode(b).decode()


_POOL = None


def pool():
    """[(algorithm, blob)]: ten ed25519 keys and one ecdsa-nistp256 key derived from fixed seeds."""
    global _POOL
    if _POOL is None:
        from cryptography.hazmat.primitives.asymmetric import ed25519, ec
        from cryptography.hazmat.primitives import serialization as ser
        out = []
        for i in range(10):
            seed = hashlib.sha256(b'c17-key-%d' % i).digest()
            pub = ed25519.Ed25519PrivateKey.from_private_bytes(seed).public_key().public_bytes(
                ser.Encoding.Raw, ser.PublicFormat.Raw)
            out.append(('ssh-ed25519', _s(b'ssh-ed25519') + _s(pub)))
        d = int.from_bytes(hashlib.sha256(b'c17-ec').digest(), 'big') >> 1
        pt = ec.derive_private_key(d, ec.SECP256R1()).public_key().public_bytes(
            ser.Encoding.X962, ser.PublicFormat.UncompressedPoint)
        out.append(('ecdsa-sha2-nistp256', _s(b'ecdsa-sha2-nistp256') + _s(b'nistp256') + _s(pt)))
        _POOL = out
    return _POOL


def key_text(i):
    alg, blob = pool()[i]
    return alg + ' ' + _b64(blob)


DAMAGE_KINDS = ['bad_b64_char', 'bad_padding', 'truncated_blob', 'extra_bytes', 'inner_length', 'short_key',
                'unknown_alg', 'alg_mismatch', 'only_alg', 'garbage',
                'rsa_zero', 'rsa_even_e', 'ec_point_off_curve', 'ec_empty_point', 'dss_zero']
IMPOSSIBLE = {'rsa_zero', 'rsa_even_e', 'ec_point_off_curve', 'ec_empty_point', 'dss_zero'}


def damaged_key(rng, kind):
    """A key field that is not a usable public key, damaged in the named way."""
    i = rng.randrange(10)
    alg, blob = pool()[i]
    pub = blob[-32:]
    if kind == 'bad_b64_char':
        t = _b64(blob)
        k = rng.randrange(4, len(t) - 4)
        return alg + ' ' + t[:k] + '!' + t[k + 1:]
    if kind == 'bad_padding':
        return alg + ' ' + _b64(blob)[:-rng.randint(1, 3)]
    if kind == 'truncated_blob':
        return alg + ' ' + _b64(blob[:-rng.randint(1, 40)])
    if kind == 'extra_bytes':
        return alg + ' ' + _b64(blob + b'xy')
    if kind == 'inner_length':
        return alg + ' ' + _b64(_s(b'ssh-ed25519') + struct.pack('>I', 33) + pub)
    if kind == 'short_key':
        return alg + ' ' + _b64(_s(b'ssh-ed25519') + _s(pub[:31]))
    if kind == 'unknown_alg':
        return 'ssh-foo ' + _b64(_s(b'ssh-foo') + _s(pub))
    if kind == 'alg_mismatch':
        return 'ssh-rsa ' + _b64(blob)
    if kind == 'only_alg':
        return alg
    if kind == 'garbage':
        return alg + ' ' + ''.join(rng.choice('abcXYZ019+/=-_.') for _ in range(rng.randint(1, 30)))
    if kind == 'rsa_zero':
        return 'ssh-rsa ' + _b64(_s(b'ssh-rsa') + _mp(0) + _mp(0))
    if kind == 'rsa_even_e':
        return 'ssh-rsa ' + _b64(_s(b'ssh-rsa') + _mp(4) + _mp((1 << 1023) + 2 * rng.getrandbits(64) + 1))
    if kind == 'ec_point_off_curve':
        return 'ecdsa-sha2-nistp256 ' + _b64(_s(b'ecdsa-sha2-nistp256') + _s(b'nistp256') + _s(b'\x04' + bytes([rng.randrange(1, 250)]) * 64))
    if kind == 'ec_empty_point':
        return 'ecdsa-sha2-nistp256 ' + _b64(_s(b'ecdsa-sha2-nistp256') + _s(b'nistp256') + _s(b''))
    if kind == 'dss_zero':
        return 'ssh-dss ' + _b64(_s(b'ssh-dss') + _mp(0) + _mp(0) + _mp(0) + _mp(0))
    raise AssertionError(kind)


# ================================================================================================
# observation of the implementation

_KEYIDS = {}
_KEYOBJ = {}


def _pool_ids():
    if not _KEYIDS:
        for i, (_a, blob) in enumerate(pool()):
            _KEYIDS[blob] = i


def key_id(key):
    _pool_ids()
    pd = key.public_data
    if pd not in _KEYIDS:
        _KEYIDS[pd] = 100 + len(_KEYIDS)
    return _KEYIDS[pd]


def key_obj(i):
    import asyncssh
    if i not in _KEYOBJ:
        _KEYOBJ[i] = asyncssh.import_public_key(key_text(i))
    return _KEYOBJ[i]


_IMPORT_CACHE = {}
_IMPORT_RAISED = []          # key fields on which import_public_key raised something other than KeyImportError


def import_class(data):
    """import_public_key(data): key id, -1 for an exception other than KeyImportError, None for KeyImportError."""
    import asyncssh
    if data not in _IMPORT_CACHE:
        try:
            r = key_id(asyncssh.import_public_key(data))
        except asyncssh.KeyImportError:
            r = None
        except Exception as e:
            r = -1
            _IMPORT_RAISED.append((data, type(e).__name__))
        _IMPORT_CACHE[data] = r
    return _IMPORT_CACHE[data]


def impl_kh(text, host, addr, port):
    """match_known_hosts -> None on exception, else three sorted key-id lists."""
    import asyncssh
    try:
        r = asyncssh.match_known_hosts(text.encode('utf-8'), host, addr, port)
    except Exception as e:
        return None, type(e).__name__
    return tuple(sorted({key_id(k) for k in cat}) for cat in r[:3]), None


def canon_opts(o):
    """options mapping of an authorized_keys entry -> sorted [(name, (tag, value))]"""
    out = []
    for k, v in o.items():
        if v is True:
            c = ('T', None)
        elif isinstance(v, str):
            c = ('S', v)
        elif isinstance(v, dict):
            c = ('E', sorted(v.items()))
        elif isinstance(v, (set, frozenset)):
            c = ('P', sorted(v, key=lambda hp: (hp[0], -1 if hp[1] is None else hp[1])))
        elif isinstance(v, list) and all(isinstance(x, str) for x in v):
            c = ('L', list(v))
        elif isinstance(v, list) and k == 'from':
            c = ('F', len(v))
        elif isinstance(v, list) and k == 'principals':
            c = ('R', len(v))
        else:
            c = ('?', repr(v))
        out.append((k, c))
    return sorted(out)


def coq_obs(c):
    tag, v = c
    if tag == 'T':
        return 'OTrue'
    if tag == 'S':
        return 'OStr ' + zs(v)
    if tag == 'E':
        return 'OEnv ' + clist(v, lambda kv: '(%s, %s)' % (zs(kv[0]), zs(kv[1])))
    if tag == 'P':
        return 'OPermit ' + clist(v, lambda hp: '(%s, %s)' % (zs(hp[0]), copt(hp[1], cz)))
    if tag == 'L':
        return 'OList ' + clist(v, zs)
    if tag == 'F':
        return 'OFromN %d' % v
    if tag == 'R':
        return 'OPrincN %d' % v
    return 'OList [[0;0;0]]'      # unknown shape: guaranteed mismatch


def coq_opts(co):
    return clist(co, lambda kv: '(%s, %s)' % (zs(kv[0]), coq_obs(kv[1])))


# ================================================================================================
# tables for the model's external functions

_WS = re.compile(r'\s+')


def key_table(text):
    """Every string either loader can hand to import_public_key: a stripped line, or the stripped
    remainder after a whitespace run, or the last character."""
    tab = {}
    for line in text.splitlines():
        s = line.strip()
        if not s:
            continue
        cands = {s, s[-1:]}
        for m in _WS.finditer(s):
            cands.add(s[m.end():].strip())
        for c in cands:
            r = import_class(c)
            if r is not None:
                tab[c] = r
    return sorted(tab.items())


def b64_table(text):
    tab = {}
    for tok in text.split():
        i = tok.find('|')
        if i < 0:
            continue
        for piece in tok.split('|'):
            try:
                tab[piece] = binascii.a2b_base64(piece)
            except (ValueError, binascii.Error):
                pass
    return sorted(tab.items())


def hmac_table(b64tab, values):
    out = []
    for salt in sorted({v for _k, v in b64tab}):
        for val in sorted(set(values)):
            try:
                out.append((salt, val, _hmac.new(salt, val.encode('utf-8'), hashlib.sha1).digest()))
            except UnicodeError:
                pass
    return out


def ip6_table(cands):
    tab = {}
    for c in cands:
        for t in {c, c.split('/')[0]}:
            if ':' in t and '%' not in t:
                try:
                    tab[t] = int(ipaddress.IPv6Address(t))
                except ValueError:
                    pass
    return sorted(tab.items())


def pattern_cands(text):
    out = set()
    for tok in text.split():
        for comp in tok.split(','):
            out.add(comp)
            out.add(comp[1:] if comp.startswith('!') else comp)
    return out


def coq_tables(tk, tb, th, t6):
    return '{| t_key := %s; t_b64 := %s; t_hmac := %s; t_ip6 := %s |}' % (
        clist(tk, lambda kv: '(%s, %s)' % (zs(kv[0]), cz(kv[1]))),
        clist(tb, lambda kv: '(%s, %s)' % (zs(kv[0]), zl(kv[1]))),
        clist(th, lambda e: '(%s, %s, %s)' % (zl(e[0]), zs(e[1]), zl(e[2]))),
        clist(t6, lambda kv: '(%s, %s)' % (zs(kv[0]), cz(kv[1]))))


def with_port(h, port):
    return '[%s]:%d' % (h, port) if h and port else h


# ================================================================================================
# generators

HOSTS = ['a.ex.com', 'b.ex.com', 'ex.com', 'h', 'h1', 'gw', 'a', 'ab', 'x.y.ex.com', 'host']
ADDRS4 = ['10.0.0.1', '10.1.2.3', '192.168.1.7', '172.16.0.9']
ADDRS6 = ['::1', 'fe80::1', '2001:db8::5']
PORTS = [2222, 2200]
WILD = ['*.ex.com', '*', 'a*', '?.ex.com', 'h?', '*.com', 'a.*', '*ex*', '10.0.*', '10.*.*.1', '??', '*:*', '192.168.?.7',
        '*.ex.co?', 'g*w', 'h*1', '[*]:2222', '[*.ex.com]:2222', '[h?]:2222', '[10.0.0.*]:2222', '[*]:*', '*]:2200']
CIDRS = ['10.0.0.0/8', '10.1.2.0/24', '192.168.0.0/16', '172.16.0.0/255.240.0.0', '10.0.0.0/0.255.255.255', '10.0.0.1/32',
         '10.0.0.1/8', '0.0.0.0/0', 'fe80::/10', '2001:db8::/32', '::/0', '10.0.0.0/33', '10.0.0.0/08', '10.0.0.0/', '/8',
         '10.0.0.0/8/8', '::1/128', '2001:DB8:0::/32', '10.1.2.3/255.255.255.255', '192.168.1.0/255.255.0.255']
ODD = ['', 'H', 'A.EX.COM', 'a[b]', '[h]', '[h]:', 'h]:2222', '[[h]]:2222', 'a\\*', 'é.ex.com', '10.0.0.01', '10.0.1', '1',
       'a|b', '0:0::1', '::ffff:10.0.0.1']


def gen_component(rng, clean):
    """One comma-list entry. clean = inside what OpenSSH documents for known_hosts (no CIDR, lower case,
    ASCII, non-empty)."""
    r = rng.random()
    if r < 0.30:
        c = rng.choice(HOSTS)
    elif r < (0.34 if clean else 0.42):
        c = rng.choice(ADDRS4 + ADDRS6)
    elif r < 0.70:
        c = rng.choice(WILD)
    elif r < 0.82:
        c = '[%s]:%d' % (rng.choice(HOSTS + ADDRS4), rng.choice(PORTS + [22]))
    elif r < 0.90 and not clean:
        c = rng.choice(CIDRS)
    elif r < 0.95 and not clean:
        c = rng.choice(ODD)
    else:
        c = ''.join(rng.choice('ab.*?') for _ in range(rng.randint(1, 5)))
    if rng.random() < 0.27:
        c = '!' + c
    return c


def gen_patterns(rng, clean, empty_ok):
    n = rng.choice([1, 1, 1, 2, 2, 3, 4])
    comps = [gen_component(rng, clean) for _ in range(n)]
    if empty_ok and rng.random() < 0.5:
        comps.insert(rng.randrange(len(comps) + 1), '')
    return ','.join(comps)


def hashed_pattern(rng, name, salt_len=20, magic='1'):
    salt = bytes(rng.getrandbits(8) for _ in range(salt_len))
    hh = _hmac.new(salt, name.encode(), hashlib.sha1).digest()
    return '|%s|%s|%s' % (magic, _b64(salt), _b64(hh)), [salt.hex(), hh.hex()]


def gen_kh_file(rng, clean):
    """Returns the list of line structs. clean files stay inside the OpenSSH-documented format:
    every line is a comment, blank, or `[marker] patterns key [comment]` with blanks/tabs as separators."""
    lines = []
    n = rng.randint(1, 7)
    empty_ok = rng.random() < 0.08
    for _ in range(n):
        r = rng.random()
        if r < 0.08:
            lines.append({'skip': True, 'text': rng.choice(['# comment', '', '   ', '#h ssh-ed25519 AAAA', '  # x',
                                                            '#h ' + key_text(0), '#a.ex.com,h1 ' + key_text(1), ' #h\t' + key_text(2)])})
            continue
        marker = rng.choice([None, None, None, 'cert-authority', 'revoked', 'revoked'])
        hashed = None
        aim = None
        if rng.random() < 0.15:
            nm = rng.choice(HOSTS + ADDRS4)
            if rng.random() < 0.4:
                nm = '[%s]:%d' % (nm, rng.choice(PORTS))
            if clean or rng.random() < 0.45:
                pat, hashed = hashed_pattern(rng, nm)
            else:
                k = rng.random()
                if k < 0.3:
                    pat, hashed = hashed_pattern(rng, nm, salt_len=rng.choice([0, 1, 8, 33]))
                elif k < 0.5:
                    pat, hashed = hashed_pattern(rng, nm, magic=rng.choice(['2', '', '11']))
                elif k < 0.7:
                    pat, hashed = hashed_pattern(rng, nm)
                    pat = pat[:-rng.randint(1, 3)]
                else:
                    pat = rng.choice(['|1|abc', '|1|a|b|c', '|', '|1||', '|1|====|AAAA'])
                hashed = 'odd'
        elif rng.random() < 0.12:
            # exact names plus a negated exact name, no wildcard: "host,!10.0.0.66 key" must not match that address
            h, a = rng.choice(HOSTS), rng.choice(ADDRS4 + HOSTS[:3])
            pat = rng.choice(['%s,!%s' % (h, a), '!%s,%s' % (a, h), '%s,gw,!%s' % (h, a), '%s,!%s' % (a, h), '!%s,*.ex.com,%s' % (h, a)])
            aim = (h, a)
        else:
            pat = gen_patterns(rng, clean, empty_ok)
            if not clean and rng.random() < 0.03:
                pat = rng.choice(['#x', '@x', 'a\x00b'])
        if rng.random() < 0.16:
            kind = rng.choice(DAMAGE_KINDS)
            key, ktxt = None, damaged_key(rng, kind)
        else:
            kind = None
            key = rng.randrange(len(pool())) if rng.random() < 0.85 else rng.randrange(3)
            ktxt = key_text(key)
        sep = rng.choice([' ', ' ', ' ', '\t', '  ']) if clean else rng.choice([' ', ' ', '\t', '  ', ' \t ', '\xa0', ' ', '\x1f'])
        # OpenSSH 9.2 only recognises a marker that is followed by a blank (not a tab)
        mk = '' if marker is None else '@' + marker + (rng.choice([' ', ' ', '  ']) if clean else sep)
        text = mk + pat + sep + ktxt
        if rng.random() < 0.3:
            text += sep + rng.choice(['comment', 'user@host', 'a b c', '# not a comment'])
        if rng.random() < 0.1:
            text = rng.choice([' ', '\t', '  ']) + text
        ln = {'text': text, 'marker': marker, 'pattern': pat, 'key': key, 'damage': kind, 'hashed': hashed}
        if hashed:
            ln['hashed_name'] = nm
        if aim:
            ln['aim'] = list(aim)
        if not clean:
            k = rng.random()
            if k < 0.03:
                ln['text'] = '@' + rng.choice(['foo', 'Revoked', 'cert-authority-x', '']) + ' ' + pat + ' ' + ktxt
                ln['odd'] = 'marker'
            elif k < 0.05:
                ln['text'] = rng.choice([pat, '@revoked ' + pat, '@cert-authority'])
                ln['odd'] = 'fields'
        lines.append(ln)
    return lines


def kh_text(lines, clean, rng):
    if clean:
        return ''.join(ln['text'] + '\n' for ln in lines)
    out = ''
    for i, ln in enumerate(lines):
        out += ln['text']
        if i < len(lines) - 1 or rng.random() < 0.8:
            out += rng.choice(['\n', '\n', '\n', '\r\n', '\r', '\x0b', '\x0c', '\x1c', '\x85', ' ', '\n\n'])
    return out


def gen_query(rng, lines):
    """A lookup aimed at the file: names taken from its own patterns most of the time."""
    names = []
    for ln in lines:
        if ln.get('skip'):
            continue
        if ln.get('hashed'):
            m = re.fullmatch(r'\[([^\]]*)\]:(\d+)', ln['hashed_name'])
            names += [(m.group(1), int(m.group(2))) if m else (ln['hashed_name'], None)] * 2
            continue
        for c in ln['pattern'].split(','):
            c = c.lstrip('!')
            m = re.fullmatch(r'\[([^\]]*)\]:(\d+)', c)
            if m:
                names.append((m.group(1), int(m.group(2))))
            elif c and not any(ch in c for ch in '*?/'):
                names.append((c, None))
    host = rng.choice(HOSTS)
    port = rng.choice([None, None, None] + PORTS)
    addr_forced = None
    aims = [ln['aim'] for ln in lines if ln.get('aim')]
    if aims and rng.random() < 0.5:
        h, a = rng.choice(aims)
        if ref.parse_ip(a) is not None:
            return h, a, rng.choice([None, None, 2222])       # the host matches, the address is the negated one
        return rng.choice([(a, '', None), (h, '', None)])
    if names and rng.random() < 0.6:
        nm, p = rng.choice(names)
        if any(ch in nm for ch in '*?'):
            nm = rng.choice(HOSTS)
        host = nm
        if ref.parse_ip(nm) is not None and rng.random() < 0.5:
            host = rng.choice(HOSTS)
            addr_forced = nm
        if p is not None and rng.random() < 0.8:
            port = p
        elif rng.random() < 0.3:
            port = rng.choice(PORTS)
    if any(ln.get('skip') and ln['text'].lstrip().startswith('#h') for ln in lines) and rng.random() < 0.5:
        host = '#h'                               # a commented-out entry must stay invisible
    addr = rng.choice(['', '', ''] + ADDRS4 + ADDRS6[:2])
    if ref.parse_ip(host) is not None:
        addr = rng.choice([host, ''])          # a literal address as host name: the address is that address
    elif addr_forced is not None:
        addr = addr_forced
    return host, addr, port


# ================================================================================================
# stage: small pure functions (wildcards, pattern lists, IP parsing, whitespace)

def all_strings(alpha, maxlen):
    out = ['']
    frontier = ['']
    for _ in range(maxlen):
        frontier = [s + c for s in frontier for c in alpha]
        out += frontier
    return out


def stage_wild(ctx):
    try:
        from asyncssh.pattern import WildcardPattern, WildcardPatternList, HostPatternList
        from asyncssh.misc import ip_address
    except ImportError:
        # internal classes moved: the known_hosts / authorized_keys stages (public API) still cover matching
        ctx.cov['correspondence']['wild'] = 'unavailable: asyncssh.pattern classes not found'
        return
    rng = ctx.rng
    cases = []
    pairs = []
    if ctx.tier == 'thorough':
        pats = all_strings('a*?', 5)
        vals = all_strings('ab', 4)
        pairs += [(p, v) for p in pats for v in vals]
        pairs += [(p, v) for p in all_strings('ab*?', 4) for v in all_strings('ab', 5) if 'b' in p]
        ctx.cov['exhaustive'] = ('wildcard matcher: all patterns over {a,*,?} up to length 5 x all values over {a,b} up to length 4, '
                                 'and all patterns over {a,b,*,?} up to length 4 x all values over {a,b} up to length 5')
    else:
        pats = all_strings('a*?', 4)
        vals = all_strings('ab', 3)
        pairs += [(p, v) for p in pats for v in vals]
        ctx.cov['exhaustive'] = 'wildcard matcher: all patterns over {a,*,?} up to length 4 x all values over {a,b} up to length 3'
    for _ in range(3000 if ctx.tier == 'thorough' else 700):
        p = ''.join(rng.choice('ab*?[]!.\\-\n') for _ in range(rng.randint(0, 8)))
        if rng.random() < 0.6:
            v = ''.join(rng.choice('ab') if c in '*?' and rng.random() < 0.7 else c for c in p)
            if rng.random() < 0.5:
                v = v.replace('a', 'aab', 1)
        else:
            v = ''.join(rng.choice('ab[]!.\n') for _ in range(rng.randint(0, 8)))
        pairs.append((p, v))
    pairs += [('a[b]c', 'a[b]c'), ('a[b]c', 'abc'), ('[!a]', 'b'), ('[!a]', '[!a]'), ('*', 'a\nb'), ('?', '\n'), ('A', 'a'),
              ('[a-z]', 'b'), ('[a-z]', '[a-z]'), ('[]', '[]'), ('[]]', ']'), ('a\\*', 'a\\x'), ('é?', 'éü'), ('?', '\U0001f600')]
    nmatch = 0
    for p, v in pairs:
        got = WildcardPattern(p).matches(v)
        exp = ref.wild(p, v)
        nmatch += got
        ctx.note_case(('wild', p, v), nontrivial=('*' in p or '?' in p))
        cases.append('(%s, %s, %s)' % (zs(p), zs(v), cbool(got)))
        if got != exp:
            report(ctx, 'wild', f'WildcardPattern({p!r}).matches({v!r}) = {got}, the documented wildcard rules give {exp}',
                              {'kind': 'wild', 'pattern': p, 'value': v})
    ctx.count('wild.matching', nmatch)
    ctx.count('wild.not_matching', len(pairs) - nmatch)
    if nmatch < len(pairs) // 20:
        ctx.broke('vacuity:wild', 'fewer than 5% of wildcard cases match')
    bad = ctx.coq_cases('wild', IMPORTS, 'chk_wild', cases, ty='text * text * bool', shard=2500)
    if bad:
        ctx.broke('correspondence:wild', f'{len(bad)} of {len(cases)} differ; first: {pairs[bad[0]]!r}')

    # pattern lists with negation (principals) and host pattern lists with CIDR
    cases_w, cases_h = [], []
    plw, plh = [], []
    nneg = ncidr = 0
    for _ in range(2500 if ctx.tier == 'thorough' else 500):
        pl = gen_patterns(rng, False, rng.random() < 0.1)
        v = rng.choice(HOSTS + ADDRS4 + ['', 'A.EX.COM', '[h]:2222'])
        got = WildcardPatternList(pl).matches(v)
        exp = ref.plist(pl, [v], None, False)
        cases_w.append('(%s, %s, %s)' % (zs(pl), zs(v), cbool(got)))
        plw.append((pl, v))
        ctx.note_case(('wpl', pl, v), nontrivial='!' in pl)
        if got != exp:
            report(ctx, 'wpl', f'WildcardPatternList({pl!r}).matches({v!r}) = {got}, rules give {exp}',
                              {'kind': 'wpl', 'patterns': pl, 'value': v})
    from asyncssh.misc import ip_address
    for _ in range(10000 if ctx.tier == 'thorough' else 900):
        pl = gen_patterns(rng, False, rng.random() < 0.1)
        host = rng.choice(HOSTS + ['', '10.0.0.1'])
        addr = rng.choice(ADDRS4 + ADDRS4 + ADDRS6 + ['', '0:0::1', '10.0.0.255', '11.0.0.0', '9.255.255.255', '10.1.3.0', 'febf::1', 'fec0::1'])
        try:
            ip = ip_address(addr) if addr else None
        except ValueError:
            ip = None
        got = HostPatternList(pl).matches(host, addr, ip)
        names = [n for n in (host, addr) if n]
        exp = ref.plist(pl, names, ref.parse_ip(addr), True)
        nneg += ('!' in pl)
        ncidr += ('/' in pl)
        ctx.note_case(('hpl', pl, host, addr), nontrivial=('!' in pl or '/' in pl))
        t6 = ip6_table(pattern_cands(pl) | {addr, host})
        cases_h.append('(%s, %s, %s, %s, %s)' % (clist(t6, lambda kv: '(%s, %s)' % (zs(kv[0]), cz(kv[1]))), zs(pl), zs(host), zs(addr), cbool(got)))
        plh.append((pl, host, addr))
        if got != exp and pl.isascii():
            report(ctx, 'hpl', f'HostPatternList({pl!r}).matches({host!r}, {addr!r}) = {got}, rules give {exp}',
                              {'kind': 'hpl', 'patterns': pl, 'host': host, 'addr': addr})
    ctx.count('patlist.with_negation', nneg)
    ctx.count('patlist.with_cidr', ncidr)
    bad = ctx.coq_cases('wpl', IMPORTS, 'chk_wpl', cases_w, ty='text * text * bool')
    if bad:
        ctx.broke('correspondence:wpl', f'{len(bad)} differ; first: {plw[bad[0]]!r}')
    bad = ctx.coq_cases('hpl', IMPORTS, 'chk_hpl', cases_h, ty='list (text * Z) * text * text * text * bool')
    if bad:
        ctx.broke('correspondence:hpl', f'{len(bad)} differ; first: {plh[bad[0]]!r}')
    if nneg < 50 or ncidr < 30:
        ctx.broke('vacuity:patlist', f'negation {nneg}, cidr {ncidr}')


def stage_ip(ctx):
    try:
        from asyncssh.misc import ip_address, ip_network
    except ImportError:
        ctx.cov['correspondence']['ip4'] = 'unavailable: asyncssh.misc.ip_address/ip_network not found'
        return
    rng = ctx.rng
    texts = list(ADDRS4) + ['0.0.0.0', '255.255.255.255', '256.0.0.1', '1.2.3', '1.2.3.4.5', '01.2.3.4', '00.0.0.0', '1.2.3.04',
                            '1..2.3', '.1.2.3', '1.2.3.', '1.2.3.4 ', ' 1.2.3.4', '1.2.3.a', '1.2.3.-1', '1.2.3.+1', '1111.1.1.1',
                            '٣.2.3.4', '1.2.3.4/8', '', 'a', '1', '10.1', '0x7f.0.0.1', '1.2.3.0255', '1.2.3.255', '0.0.0.00']
    for _ in range(600 if ctx.tier == 'thorough' else 150):
        texts.append('.'.join(rng.choice(['0', '1', '9', '10', '99', '100', '199', '255', '256', '00', '09', '', 'a', '1000'])
                              for _ in range(rng.choice([3, 4, 4, 4, 4, 5]))))
    cases = []
    for t in texts:
        try:
            a = ip_address(t)
            got = int(a) if a.version == 4 else 'v6'
        except ValueError:
            got = None
        if got == 'v6':
            continue
        ctx.note_case(('ip4', t), nontrivial=got is not None)
        cases.append('(%s, %s)' % (zs(t), copt(got, cz)))
    bad = ctx.coq_cases('ip4', IMPORTS, 'chk_ip4', cases, ty='text * option Z')
    if bad:
        ctx.broke('correspondence:ip4', f'{len(bad)} differ; first: {cases[bad[0]]}')
    nets = list(CIDRS) + ADDRS4 + ADDRS6
    masks = ['0', '1', '8', '24', '31', '32', '33', '08', '008', '', '+8', ' 8', '8 ', '-1', '255.0.0.0', '255.255.255.0', '0.0.0.255',
             '0.255.255.255', '255.255.255.255', '0.0.0.0', '255.0.255.0', '128.0.0.0', '127.255.255.255', '255.254.0.0', '1.0.0.0',
             '0.0.0.1', '64', '128', '129', '10', 'a', '٨']
    bases = ['10.0.0.0', '10.1.2.0', '10.1.2.3', '0.0.0.0', '128.0.0.0', '192.168.0.0', '255.255.255.255', '::', 'fe80::', '2001:db8::',
             '::1', 'x', '']
    for _ in range(1500 if ctx.tier == 'thorough' else 350):
        nets.append(rng.choice(bases) + '/' + rng.choice(masks))
    cases = []
    nok = 0
    for t in nets:
        try:
            n = ip_network(t)
            got = (n.version, int(n.network_address), n.prefixlen)
            nok += 1
        except ValueError:
            got = None
        ctx.note_case(('net', t), nontrivial=got is not None)
        t6 = ip6_table({t})
        cases.append('(%s, %s, %s)' % (clist(t6, lambda kv: '(%s, %s)' % (zs(kv[0]), cz(kv[1]))), zs(t),
                                       copt(got, lambda g: '(%d, %d, %d)' % g)))
    ctx.count('ip_network.accepted', nok)
    ctx.count('ip_network.rejected', len(nets) - nok)
    bad = ctx.coq_cases('net', IMPORTS, 'chk_net', cases, ty='list (text * Z) * text * option (Z * Z * Z)')
    if bad:
        ctx.broke('correspondence:net', f'{len(bad)} differ; first: {nets[bad[0]]!r}')
    # whitespace / line-boundary tables against the running interpreter, whole BMP plus neighbours
    sp = {c for c in range(0x110000) if chr(c).isspace()}
    lb = {c for c in range(0x110000) if len(('a' + chr(c) + 'b').splitlines()) == 2}
    probe = sorted({d for c in sp | lb for d in (c - 1, c, c + 1) if 0 <= d < 0x110000} | set(range(0, 200)) | {0x180e, 0x200b, 0xfeff, 0x10ffff})
    cases = ['(%d, %s, %s)' % (c, cbool(c in sp), cbool(c in lb)) for c in probe]
    bad = ctx.coq_cases('space', IMPORTS, 'chk_space', cases, ty='Z * bool * bool')
    if bad:
        ctx.broke('correspondence:space', f'{len(bad)} differ; first: {cases[bad[0]]}')
    texts = ['', 'a', 'a\n', '\n', 'a\r\nb', 'a\n\rb', 'a\r\r\nb', '\r\n', 'a\x0bb\x0cc', 'a\x1cb\x1db\x1ec\x1fd', 'a\x85b c d', 'a\n\nb\n']
    for _ in range(300 if ctx.tier == 'thorough' else 80):
        texts.append(''.join(rng.choice('ab \r\n\x0b\x85') for _ in range(rng.randint(0, 8))))
    cases = ['(%s, %s)' % (zs(t), clist(t.splitlines(), zs)) for t in texts]
    bad = ctx.coq_cases('splitlines', IMPORTS, 'chk_splitlines', cases, ty='text * list text')
    if bad:
        ctx.broke('correspondence:splitlines', f'{len(bad)} differ; first: {texts[bad[0]]!r}')


# ================================================================================================
# stage: known_hosts

def run_keygen(tmp, text, name):
    """Lines of the file `ssh-keygen -F name` reports: {line_no: marker}. None if ssh-keygen is unusable."""
    path = os.path.join(tmp, 'kh')
    with open(path, 'w', encoding='utf-8') as f:
        f.write(text)
    try:
        p = subprocess.run([SSH_KEYGEN, '-F', name, '-f', path], capture_output=True, text=True, timeout=20)
    except (OSError, subprocess.TimeoutExpired):
        return None
    if p.returncode not in (0, 1):
        return None
    out = {}
    for ln in p.stdout.splitlines():
        m = re.match(r'# Host .* found: line (\d+)\s*(REVOKED|CA)?', ln)
        if m:
            out[int(m.group(1))] = {'REVOKED': 'revoked', 'CA': 'cert-authority', None: None}[m.group(2)]
    return out


def kh_classify(lines, q, exp, got, fell_back):
    host, addr, port = q
    if got is None:
        for ln in lines:
            if ln.get('damage') in IMPOSSIBLE:
                return 'damaged_key:' + ln['damage']
        return 'kh_exception'
    (et, ec, er), (gt, gc, gr) = exp, got
    if set(gt) == et and set(gc) == ec and fell_back and set(gr) < er:
        return 'kh_revoked_port_fallback'
    has_empty = any((not ln.get('skip')) and not ln.get('hashed') and '' in ln['pattern'].split(',') for ln in lines)
    if has_empty and (not addr or not host):
        return 'kh_empty_component'
    if address_pattern_with_port(lines, q):
        return 'kh_address_pattern_port'
    return 'kh_lookup'


def address_pattern_with_port(lines, q):
    """The lookup has a port and the file has an undecorated address entry (only used to name the class
    of a failing input: such an entry must be consulted for the plain names only)."""
    return bool(q[2]) and any(
        (not ln.get('skip')) and not ln.get('hashed') and
        any(ref.parse_ip(c.lstrip('!')) is not None for c in ln['pattern'].split(',')) for ln in lines)


def kh_oracle(ctx, lines, text, q, got):
    """Direct oracle on a clean file: the implementation's answer against the documented rules."""
    host, addr, port = q
    (et, ec, er), fell_back = ref.kh_lookup(lines, host, addr, port)
    if got is not None and (set(got[0]), set(got[1]), set(got[2])) == (et, ec, er):
        return True
    kind = kh_classify(lines, q, (et, ec, er), got, fell_back)
    report(
        ctx, kind,
        f'match_known_hosts on {text!r} for host={host!r} addr={addr!r} port={port!r} returned '
        f'{"an exception" if got is None else "trusted=%s ca=%s revoked=%s" % tuple(map(list, got))}; the file-format rules select '
        f'trusted={sorted(et)} ca={sorted(ec)} revoked={sorted(er)} (key ids = index in the key pool) [{kind}]',
        {'kind': kind.split(':')[0], 'damage': kind.split(':')[1] if ':' in kind else None,
         'file': 'known_hosts', 'lines': lines, 'query': [host, addr, port]})
    return False


def stage_known_hosts(ctx):
    rng = ctx.rng
    nfiles = 4200 if ctx.tier == 'thorough' else 330
    tmp = tempfile.mkdtemp(prefix='c17-', dir='/var/tmp')
    have_keygen = os.path.exists(SSH_KEYGEN)
    ctx.cov['oracle']['ssh_keygen'] = SSH_KEYGEN if have_keygen else 'absent: ssh-keygen oracle skipped'
    cases, metas = [], []
    st = {'selected': 0, 'fallback': 0, 'hashed_hit': 0, 'neg_excl': 0, 'revoked': 0, 'ca': 0, 'errors': 0, 'keygen': 0,
          'keygen_found': 0, 'damaged_ok': 0}
    try:
        for fi in range(nfiles):
            clean = rng.random() < 0.6
            lines = gen_kh_file(rng, clean)
            text = kh_text(lines, clean, rng)
            queries = [gen_query(rng, lines) for _ in range(3)]
            if not clean and rng.random() < 0.05:
                queries.append((rng.choice(HOSTS), rng.choice(['nonsense', '10.0.0', '10.0.0.256']), None))
            if not clean and rng.random() < 0.05:
                queries.append((rng.choice(HOSTS), '', rng.choice([0, 22, -5])))
            values = {''}
            for h, a, p in queries:
                values |= {h, a, with_port(h, p), with_port(a, p)}
            tk = key_table(text)
            tb = b64_table(text)
            th = hmac_table(tb, values)
            t6 = ip6_table(pattern_cands(text) | values)
            qs = []
            for q in queries:
                host, addr, port = q
                got, exc = impl_kh(text, host, addr, port)
                qs.append((host, addr, port or 0, got))
                nontrivial = got is not None and any(got)
                ctx.note_case(('kh', text, q), nontrivial=nontrivial)
                ctx.count('kh.' + ('clean' if clean else 'free-form'))
                if got is None:
                    st['errors'] += 1
                else:
                    st['selected'] += bool(got[0] or got[1])
                    st['revoked'] += bool(got[2])
                    st['ca'] += bool(got[1])
                if clean:
                    (et, ec, er), fb = ref.kh_lookup(lines, host, addr, port)
                    st['fallback'] += fb and bool(et or ec)
                    names = ref.names_for(host, addr, port)
                    for ln in lines:
                        if ln.get('skip') or ln.get('key') is None:
                            continue
                        if ln.get('hashed'):
                            st['hashed_hit'] += ref.line_selected(ln, names)
                        elif '!' in ln['pattern'] and not ref.line_selected(ln, names):
                            pos_only = ','.join(c for c in ln['pattern'].split(',') if not c.startswith('!'))
                            st['neg_excl'] += bool(pos_only) and ref.plist(pos_only, names, None, False)
                    kh_oracle(ctx, lines, text, q, got)
            # ssh-keygen as an independent judge of the reference and of the implementation
            if clean and have_keygen and text.isascii() and fi % (1 if ctx.tier == 'thorough' else 2) == 0:
                host, addr, port = queries[0]
                name = with_port(host, port)
                found = run_keygen(tmp, text, name)
                if found is None:
                    have_keygen = False
                    ctx.cov['oracle']['ssh_keygen'] = 'ssh-keygen failed to run; oracle skipped from then on'
                else:
                    st['keygen'] += 1
                    st['keygen_found'] += bool(found)
                    good = {i + 1: ln for i, ln in enumerate(lines) if not ln.get('skip') and ln.get('key') is not None}
                    kg = {n: m for n, m in found.items() if n in good}
                    sel = set(i + 1 for i in ref.kh_select(lines, host, '', port))
                    if set(kg) != sel or any(good[n]['marker'] != m for n, m in kg.items()):
                        ctx.broke('oracle-selfcheck:ssh-keygen',
                                  f'reference selects lines {sorted(sel)}, ssh-keygen -F {name!r} reports {kg} on {text!r}')
                    # the implementation with the same single name (no address, no fallback wanted: compare selection)
                    got1, _ = impl_kh(text, host, '', port)
                    if got1 is not None:
                        # undo the fallback for the comparison: selection for the exact name only
                        exp_t = {good[n]['key'] for n, m in kg.items() if m is None}
                        exp_c = {good[n]['key'] for n, m in kg.items() if m == 'cert-authority'}
                        exp_r = {good[n]['key'] for n, m in kg.items() if m == 'revoked'}
                        if (exp_t or exp_c or not port) and (set(got1[0]), set(got1[1]), set(got1[2])) != (exp_t, exp_c, exp_r):
                            kind = kh_classify(lines, (host, '', port), (exp_t, exp_c, exp_r), got1, False)
                            report(
                                ctx, kind,
                                f'ssh-keygen -F {name!r} finds lines {kg} of {text!r}; match_known_hosts returns '
                                f'trusted={list(got1[0])} ca={list(got1[1])} revoked={list(got1[2])} [{kind}]',
                                {'kind': kind, 'file': 'known_hosts', 'lines': lines, 'query': [host, '', port], 'judge': 'ssh-keygen'})
            # a damaged key line must not change anything for the other lines
            if clean and fi % 2 == 1:
                base = [ln for ln in lines if ln.get('skip') or ln.get('key') is not None]
                kind = rng.choice(DAMAGE_KINDS)
                bad_line = {'text': rng.choice(['', '@revoked ', '@cert-authority ']) + gen_patterns(rng, True, False) + ' ' + damaged_key(rng, kind),
                            'skip': True, 'damage': kind}
                pos = rng.randint(0, len(base))
                with_bad = base[:pos] + [bad_line] + base[pos:]
                for q in queries[:2]:
                    r0, _ = impl_kh(kh_text(base, True, rng), *q)
                    r1, exc = impl_kh(kh_text(with_bad, True, rng), *q)
                    ctx.note_case(('kh-damaged', kind, bad_line['text'], q), nontrivial=True)
                    ctx.count('damaged_key.' + kind)
                    if r0 is not None and r1 != r0:
                        report(
                            ctx, 'damaged_key:' + kind,
                            f'known_hosts: adding the line {bad_line["text"]!r} (key field damaged: {kind}) changes the lookup of {q!r} '
                            f'from {r0!r} to {("exception " + str(exc)) if r1 is None else r1!r}',
                            {'kind': 'damaged_key', 'file': 'known_hosts', 'damage': kind, 'lines': base, 'bad_line': bad_line['text'],
                             'position': pos, 'query': list(q)})
                    elif r0 is not None:
                        st['damaged_ok'] += 1
            cases.append('(%s, %s, %s)' % (
                coq_tables(tk, tb, th, t6), zs(text),
                clist(qs, lambda e: '(%s, %s, %s, %s)' % (zs(e[0]), zs(e[1]), cz(e[2]),
                                                          copt(e[3], lambda g: '(%s, %s, %s)' % (zl(g[0]), zl(g[1]), zl(g[2])))))))
            metas.append((text, queries))
            if fi < 2:
                ctx.sample({'known_hosts': text, 'queries': [list(q) for q in queries], 'results': [repr(e[3]) for e in qs]})
    finally:
        shutil.rmtree(tmp, ignore_errors=True)
    for k, v in st.items():
        ctx.cov['oracle']['kh_' + k] = v
    bad = ctx.coq_cases('known_hosts', IMPORTS, 'chk_kh', cases, shard=120,
                        ty='tables * text * list (text * text * Z * option (list Z * list Z * list Z))')
    if bad:
        ctx.broke('correspondence:known_hosts', f'{len(bad)} of {len(cases)} files differ; first: {metas[bad[0]]!r}')
    need = {'selected': 100, 'fallback': 5, 'hashed_hit': 3, 'neg_excl': 1, 'revoked': 20, 'ca': 20, 'errors': 5}
    if have_keygen:
        need['keygen_found'] = 20
    low = {k: st[k] for k, n in need.items() if st[k] < n}
    if low:
        ctx.broke('vacuity:known_hosts', f'branches hit too rarely: {low} (need {need})')


# ================================================================================================
# stage: authorized_keys

CMDS = ['ls', 'echo hi', 'a,b', 'x="y"', 'sed s/\\\\/x/', 'a\\nb', 'printf "%s\\n" ok', 'tr a-z \\\\', 'a\\ b', "awk '{print $1}'", '',
        'echo \\"hi\\" there', 'a\\"b', 'grep -c \\\\\\"x']
ENVS = ['A=b', 'PATH=/bin:/usr/bin', 'X=', 'Y=a=b', 'Z="q"', 'B=a\\tb', 'A=c']
PERMITS = ['h:80', 'a.ex.com:22', '[::1]:443', '10.0.0.1:*', '[h]:*', 'h:080', '*:80']
FLAGL = ['no-pty', 'no-port-forwarding', 'no-agent-forwarding', 'no-X11-forwarding', 'restrict', 'pty', 'cert-authority', 'no-user-rc']
PRINCS = ['alice', 'bob', 'root', 'svc-a', 'al*', '!bob', 'a,b']
CLIENTS = [('a.ex.com', '10.0.0.1'), ('b.ex.com', '10.1.2.3'), ('h', '192.168.1.7'), ('gw', 'fe80::1'), ('x.y.ex.com', '2001:db8::5'),
           ('host', '172.16.0.9'), ('', '10.0.0.1')]


def ossh_quote(v):
    """The quoting OpenSSH documents: the value in double quotes, embedded quotes as \\\" and nothing else."""
    return '"' + v.replace('"', '\\"') + '"'


def gen_from(rng, ossh):
    n = rng.choice([1, 1, 2, 3])
    comps = []
    for _ in range(n):
        r = rng.random()
        if r < 0.35:
            c = rng.choice(HOSTS)
        elif r < 0.55:
            c = rng.choice(WILD[:14])
        elif r < 0.7:
            c = rng.choice(ADDRS4 + ADDRS6)
        elif r < 0.9 or ossh:
            c = rng.choice(['10.0.0.0/8', '10.1.2.0/24', '192.168.0.0/16', 'fe80::/10', '2001:db8::/32', '172.16.0.0/12', '0.0.0.0/0'])
        else:
            c = rng.choice(CIDRS + ODD)
        if rng.random() < 0.2:
            c = '!' + c
        comps.append(c)
    return ','.join(comps)


def gen_ossh_options(rng, plain_backslash=False):
    """An option string inside the documented OpenSSH grammar. Returns (string, tags).
    One string never combines the two special classes (keyword case, backslash in front of a quote);
    plain_backslash=True excludes the latter altogether."""
    while True:
        o, tags = _gen_ossh_options(rng)
        if ('backslash_quote' in tags and plain_backslash) or ('backslash' in tags and 'case' in tags):
            continue
        return o, tags


def _gen_ossh_options(rng):
    parts, tags = [], set()
    names_used = set()
    for _ in range(rng.choice([1, 1, 2, 2, 3, 4])):
        r = rng.random()
        if r < 0.2 and 'command' not in names_used:
            name, val = 'command', rng.choice(CMDS)
        elif r < 0.35:
            val = rng.choice(ENVS)
            if val.split('=')[0] in names_used:
                continue
            names_used.add(val.split('=')[0])
            name = 'environment'
        elif r < 0.52:
            name, val = 'from', gen_from(rng, True)
        elif r < 0.68:
            name, val = 'principals', ','.join(rng.sample(PRINCS[:4], rng.randint(1, 2)))
        elif r < 0.76:
            name, val = 'permitopen', rng.choice(PERMITS[:5])
        elif r < 0.8 and 'tunnel' not in names_used:
            name, val = 'tunnel', rng.choice(['0', '1'])
        else:
            f = rng.choice(FLAGL).lower()
            if rng.random() < 0.06:
                f = rng.choice([f.upper(), f.title()])
                tags.add('case')
            parts.append(f)
            continue
        names_used.add(name)
        if rng.random() < 0.06:
            name = rng.choice([name.upper(), name.title()])
            tags.add('case')
        if re.search(r'(?<!\\)(\\\\)*\\"', val):
            tags.add('backslash_quote')          # an odd run of backslashes directly in front of a double quote
        if '\\' in val:
            tags.add('backslash')
        parts.append(name + '=' + ossh_quote(val))
    if not parts:
        parts = ['no-pty']
    return ','.join(parts), tags


def gen_free_options(rng):
    """Anything the asyncssh tokenizer may see: partial quotes, escapes, repeats, malformed pieces."""
    parts = []
    if rng.random() < 0.2:
        # repeats of one option, everything else well formed
        k = rng.choice(['environment', 'command', 'from', 'principals', 'permitopen', 'tunnel', 'flag'])
        for _ in range(rng.randint(2, 3)):
            if k == 'environment':
                parts.append('environment="%s"' % rng.choice(['A=1', 'A=2', 'A=', 'B=1', 'A=b']))
            elif k == 'command':
                parts.append('command="%s"' % rng.choice(['ls', 'id', 'true']))
            elif k == 'from':
                parts.append('from="%s"' % gen_from(rng, True))
            elif k == 'principals':
                parts.append('principals="%s"' % rng.choice(['alice', 'bob,root', 'al*', '*,!bob']))
            elif k == 'permitopen':
                parts.append('permitopen="%s"' % rng.choice(['h:80', 'h:80', 'h:*', '[h]:80', 'g:1']))
            elif k == 'tunnel':
                parts.append('tunnel="%d"' % rng.randint(0, 2))
            else:
                parts.append(rng.choice(['no-pty', 'no-pty', 'restrict']))
        rng.shuffle(parts)
        return ','.join(parts)
    for _ in range(rng.choice([1, 1, 2, 3, 4, 5])):
        r = rng.random()
        if r < 0.15:
            name, val = 'command', rng.choice(CMDS)
        elif r < 0.3:
            name, val = 'environment', rng.choice(ENVS + ['=x', 'NOEQ', '', 'A=1', 'A=2', 'A=', 'A=b'])
        elif r < 0.45:
            name, val = 'from', gen_from(rng, False)
        elif r < 0.55:
            name, val = 'principals', ','.join(rng.sample(PRINCS, rng.randint(1, 3)))
        elif r < 0.68:
            name, val = 'permitopen', rng.choice(PERMITS + ['h', 'h:x', ':', 'h:', 'h:-1', 'h: 80', 'h:8_0', 'h:+80', 'h:_8', 'h:8__0', '[h:80',
                                                          'a:b:80', '[]:1'])
        elif r < 0.75:
            name, val = rng.choice(['tunnel', 'x', 'no-pty', 'Command', 'FROM', 'from ', 'subjec', 'a=b']), rng.choice(['1', 'v', '', 'a b', 'p=q'])
        elif r < 0.93:
            parts.append(rng.choice(FLAGL + ['from', 'environment', 'principals', 'permitopen', 'command', '', 'x', 'tunnel']))
            continue
        else:
            parts.append(rng.choice(['=v', '=', '"', 'a"b', '\\', 'a\\', '"a\\"', 'a"b"c', '""', 'x="', 'a\\,b', '"a,b"', 'a\\=b', '\\"']))
            continue
        style = rng.random()
        if style < 0.5:
            v = '"' + val.replace('\\', '\\\\').replace('"', '\\"') + '"'
        elif style < 0.7:
            v = ossh_quote(val)
        elif style < 0.85:
            v = val
        else:
            k = rng.randint(0, len(val))
            v = val[:k] + '"' + val[k:] + '"'
        parts.append(name + '=' + v)
    return ','.join(parts)


def gen_ak_line(rng, optgen):
    """(text, struct)"""
    if rng.random() < 0.18:
        kind = rng.choice(DAMAGE_KINDS)
        key, ktxt = None, damaged_key(rng, kind)
    else:
        kind = None
        key = rng.randrange(4)
        ktxt = key_text(key)
    tags = set()
    if rng.random() < 0.8:
        o = optgen(rng)
        if isinstance(o, tuple):
            o, tags = o
        text = o + rng.choice([' ', ' ', '\t', '  ']) + ktxt
    else:
        o = ''
        text = ktxt
    if rng.random() < 0.3:
        text += ' ' + rng.choice(['user@host', 'a comment', 'c="d"'])
    return {'text': text, 'options': o, 'key': key, 'damage': kind, 'tags': sorted(tags)}


def impl_ak(text, queries):
    """[(result or None)] : None = exception, ('none',) = no entry, ('opts', canon)"""
    import asyncssh
    try:
        ak = asyncssh.import_authorized_keys(text)
    except Exception as e:
        return [None] * len(queries), type(e).__name__
    out = []
    exc = None
    for key, host, addr, princs, ca in queries:
        try:
            r = ak.validate(key_obj(key), host, addr, princs, ca)
            out.append(('none',) if r is None else ('opts', canon_opts(r)))
        except Exception as e:
            out.append(None)
            exc = type(e).__name__
    return out, exc


def coq_vres(r):
    if r is None:
        return 'None'
    if r[0] == 'none':
        return '(Some None)'
    return '(Some (Some %s))' % coq_opts(r[1])


def ak_expected(line, query):
    """Reference verdict for a single-entry file: None = not decidable by the documented rules,
    ('none',) or ('opts', dict)."""
    key, host, addr, princs, ca = query
    o = ref.parse_options(line['options'])
    if o is None or line['key'] is None:
        return None
    is_ca = 'cert-authority' in o['flags']
    if key != line['key'] or ca != is_ca:
        return ('none',)
    if o['from'] and ref.parse_ip(addr) is None:
        return None
    if not ref.options_accept(o, host, addr, princs):
        return ('none',)
    return ('opts', o)


def ak_compare(exp, got):
    """Does the implementation's canonical option map say what the reference parse says?"""
    if got is None:
        return False
    if exp[0] == 'none' or got[0] == 'none':
        return exp[0] == got[0]
    o = exp[1]
    g = dict(got[1])
    want = {}
    for f in o['flags']:
        want[f] = ('T', None)
    if o['command'] is not None:
        want['command'] = ('S', o['command'])
    if o['environment']:
        want['environment'] = ('E', sorted(o['environment'].items()))
    if o['from']:
        want['from'] = ('F', len(o['from']))
    if o['principals']:
        want['principals'] = ('R', len(o['principals']))
    if o['permitopen']:
        want['permitopen'] = ('P', sorted(o['permitopen'], key=lambda hp: (hp[0], -1 if hp[1] is None else hp[1])))
    for k, v in o['other'].items():
        want[k] = ('L', v)
    return want == g


def stage_options_tokenizer(ctx):
    rng = ctx.rng
    try:
        from asyncssh.misc import OptionsParser
        OptionsParser._parse_options
    except (ImportError, AttributeError):
        # the bare tokenizer is an internal; authorized_keys (public API) still exercises it
        ctx.cov['correspondence']['tokenizer'] = 'unavailable: asyncssh.misc.OptionsParser._parse_options not found'
        return
    lines = ['', ' ', 'a', 'a ', 'a,b c', 'no-pty', 'a=1,a=2 k', 'a,a=1 k', 'a=1,a k', '"', '\\', 'a\\', 'x="a b",y k', 'x=a\\ b k',
             'x="a\\"b" k', 'x=\\"a k', ',', ',, k', 'a=,b= k', '=a k', 'a==b k', 'x="a,b" k', 'x=a"b c"d e', 'a\tb', 'a \t b  ',
             'x="\t" k', 'a b c', 'é=ü k']
    for _ in range(7000 if ctx.tier == 'thorough' else 600):
        o = gen_free_options(rng)
        lines.append(o + rng.choice([' ', ' ', '\t', '  ', '']) + rng.choice(['k', 'ssh-ed25519 AAAA c', '', 'k  ']))
    for _ in range(1000 if ctx.tier == 'thorough' else 250):
        lines.append(''.join(rng.choice('ab=,"\\ \t') for _ in range(rng.randint(0, 10))))
    cases = []
    nerr = nq = nesc = 0
    for ln in lines:
        p = OptionsParser()
        try:
            rest = p._parse_options(ln)
            got = (canon_opts(p.options), rest)
        except Exception:
            got = None
            nerr += 1
        nq += '"' in ln
        nesc += '\\' in ln
        ctx.note_case(('tok', ln), nontrivial=('"' in ln or '\\' in ln or ',' in ln))
        cases.append('(%s, %s)' % (zs(ln), copt(got, lambda g: '(%s, %s)' % (coq_opts(g[0]), zs(g[1])))))
    ctx.count('tokenizer.with_quote', nq)
    ctx.count('tokenizer.with_backslash', nesc)
    ctx.count('tokenizer.rejected', nerr)
    bad = ctx.coq_cases('tokenizer', IMPORTS, 'chk_tok', cases, ty='text * option (list (text * obs) * text)')
    if bad:
        ctx.broke('correspondence:tokenizer', f'{len(bad)} of {len(cases)} differ; first: {lines[bad[0]]!r}')
    if nerr < 20 or nq < 100 or nesc < 50:
        ctx.broke('vacuity:tokenizer', f'errors {nerr}, quotes {nq}, backslashes {nesc}')


def gen_ak_query(rng, lines):
    key = rng.randrange(4)
    good = [ln['key'] for ln in lines if ln['key'] is not None]
    if good and rng.random() < 0.8:
        key = rng.choice(good)
    host, addr = rng.choice(CLIENTS)
    princs = None if rng.random() < 0.4 else rng.sample(['alice', 'bob', 'root', 'svc-a', 'carol'], rng.randint(0, 2))
    ca = rng.random() < 0.25
    return key, host, addr, princs, ca


def gen_same_key_lines(rng):
    """2-3 lines carrying the same user key (or the same CA key), each with its own from= / principals= restriction and a
    command that tells the lines apart; every order of broad and narrow restrictions occurs."""
    key = rng.randrange(4)
    ca = rng.random() < 0.3
    restr = ['from="10.0.0.0/8"', 'from="192.168.0.0/16"', 'from="*.ex.com"', 'from="h,gw"', 'from="fe80::/10,2001:db8::/32"',
             'from="!10.0.0.1,*"', 'from="172.16.0.9"', 'principals="alice"', 'principals="bob,root"', 'principals="carol"',
             'from="10.1.2.0/24",principals="root"', 'no-pty', '']
    out = []
    for i, r in enumerate(rng.sample(restr, rng.randint(2, 3))):
        parts = [p for p in (('cert-authority' if ca else ''), r, 'command="line%d"' % i, rng.choice(['', 'environment="N=%d"' % i])) if p]
        rng.shuffle(parts)
        o = ','.join(parts)
        out.append({'text': o + ' ' + key_text(key), 'options': o, 'key': key, 'damage': None, 'tags': []})
    return out


def ak_kind(line):
    if 'case' in line['tags']:
        return 'ak_keyword_case'
    if 'backslash_quote' in line['tags']:
        return 'ak_backslash_quote'
    if 'backslash' in line['tags']:
        return 'ak_backslash'
    return 'ak_options'


def stage_authorized_keys(ctx):
    rng = ctx.rng
    nfiles = 4800 if ctx.tier == 'thorough' else 380
    cases, metas = [], []
    st = {'accepted': 0, 'rejected_by_from': 0, 'rejected_by_principals': 0, 'errors': 0, 'oracle_cases': 0, 'damaged_ok': 0, 'multi': 0,
          'same_key_cases': 0, 'same_key_later_line': 0}
    for fi in range(nfiles):
        mode = rng.random()
        same_key = False
        if mode < 0.40:
            lines = [gen_ak_line(rng, gen_ossh_options)]              # one documented-grammar entry: oracle domain
            oracle = True
        elif mode < 0.58:
            lines = gen_same_key_lines(rng)                           # one key on 2-3 lines with different restrictions
            oracle, same_key = False, True
        else:
            lines = [gen_ak_line(rng, rng.choice([gen_ossh_options, gen_free_options])) for _ in range(rng.randint(1, 4))]
            oracle = False
        text = ''
        if rng.random() < 0.2:
            text += rng.choice(['# comment\n', '\n', '  \n', '   # c\n'])
        for ln in lines:
            text += ln['text'] + ('\n' if oracle else rng.choice(['\n', '\n', '\r\n', '\x0b', ' ']))
        queries = [gen_ak_query(rng, lines) for _ in range(3)]
        if not oracle and rng.random() < 0.05:
            queries.append((lines[0]['key'] or 0, 'h', rng.choice(['', 'nonsense']), None, False))
        got, exc = impl_ak(text, queries)
        st['multi'] += len(lines) > 1
        for q, g in zip(queries, got):
            ctx.note_case(('ak', text, q), nontrivial=g is not None and g[0] == 'opts')
            ctx.count('ak.' + ('documented-grammar' if oracle else 'free-form'))
            if g is None:
                st['errors'] += 1
            elif g[0] == 'opts':
                st['accepted'] += 1
            if same_key:
                # reference: the first line (in file order) whose restrictions all match wins, with its own options
                exps = [ak_expected(ln, q) for ln in lines]
                if any(e is None for e in exps):
                    continue
                exp = next((e for e in exps if e[0] == 'opts'), ('none',))
                st['same_key_cases'] += 1
                st['same_key_later_line'] += exp[0] == 'opts' and exps[0][0] != 'opts'
                if not ak_compare(exp, g):
                    want = 'no entry' if exp[0] == 'none' else {k: v for k, v in exp[1].items() if v}
                    report(
                        ctx, 'ak_line_order',
                        f'authorized_keys {text!r}, validate(key {q[0]}, host={q[1]!r}, addr={q[2]!r}, principals={q[3]!r}, ca={q[4]}) gave '
                        f'{"exception " + str(exc) if g is None else g!r}; the first line whose options all match gives {want!r} '
                        f'(per-line verdicts: {[e[0] for e in exps]})',
                        {'kind': 'ak_line_order', 'file': 'authorized_keys_lines', 'lines': lines, 'query': list(q)})
                continue
            if oracle:
                exp = ak_expected(lines[0], q)
                if exp is None:
                    continue
                st['oracle_cases'] += 1
                if exp[0] == 'none' and q[0] == lines[0]['key']:
                    o = ref.parse_options(lines[0]['options'])
                    if o['from'] and not ref.options_accept(dict(o, principals=[]), q[1], q[2], q[3]):
                        st['rejected_by_from'] += 1
                    elif o['principals'] and q[3] is not None:
                        st['rejected_by_principals'] += 1
                if not ak_compare(exp, g):
                    kind = ak_kind(lines[0])
                    want = 'no entry' if exp[0] == 'none' else {k: v for k, v in exp[1].items() if v}
                    report(
                        ctx, kind,
                        f'authorized_keys line {lines[0]["text"]!r}, validate(key {q[0]}, host={q[1]!r}, addr={q[2]!r}, principals={q[3]!r}, '
                        f'ca={q[4]}) gave {"exception " + str(exc) if g is None else g!r}; the documented option rules give {want!r} [{kind}]',
                        {'kind': kind, 'file': 'authorized_keys', 'line': lines[0], 'query': list(q)})
        # damaged key line inserted into a working file
        if fi % 3 == 0:
            base = [ln for ln in lines if ln['key'] is not None]
            if base:
                kind = rng.choice(DAMAGE_KINDS)
                o = ''
                if rng.random() < 0.5:
                    o = gen_ossh_options(rng, True)[0]
                    while ref.parse_options(o) is None:       # only option strings OpenSSH itself accepts
                        o = gen_ossh_options(rng, True)[0]
                    o += ' '
                bad_text = o + damaged_key(rng, kind)
                pos = rng.randint(0, len(base))
                t0 = ''.join(ln['text'] + '\n' for ln in base)
                t1 = ''.join(t + '\n' for t in [ln['text'] for ln in base[:pos]] + [bad_text] + [ln['text'] for ln in base[pos:]])
                r0, _ = impl_ak(t0, queries[:3])
                r1, exc1 = impl_ak(t1, queries[:3])
                ctx.note_case(('ak-damaged', kind, bad_text), nontrivial=True)
                ctx.count('damaged_key.' + kind)
                if all(r is not None for r in r0) and r1 != r0:
                    report(
                        ctx, 'damaged_key:' + kind,
                        f'authorized_keys: adding the line {bad_text!r} (key field damaged: {kind}) changes validate results from {r0!r} to '
                        f'{("exception " + str(exc1)) if any(r is None for r in r1) else repr(r1)}',
                        {'kind': 'damaged_key', 'file': 'authorized_keys', 'damage': kind, 'lines': [ln['text'] for ln in base],
                         'bad_line': bad_text, 'position': pos, 'queries': [list(q) for q in queries[:3]]})
                elif all(r is not None for r in r0):
                    st['damaged_ok'] += 1
        tk = key_table(text)
        cands = set()
        for q in queries:
            cands |= {q[1], q[2]}
        # address-like pieces of the option values, however they are quoted (from=20"01:db8::/32" is 2001:db8::/32)
        for variant in (text, text.replace('"', ''), text.replace('"', '').replace('\\', '')):
            for m in re.finditer(r'[0-9a-fA-F:.]*:[0-9a-fA-F:.]*(/\d+)?', variant):
                cands.add(m.group(0))
            cands |= pattern_cands(variant.replace('"', ' ').replace('=', ' '))
        t6 = ip6_table(cands)
        cases.append('(%s, %s, %s)' % (
            coq_tables(tk, [], [], t6), zs(text),
            clist(list(zip(queries, got)), lambda e: '(%d, %s, %s, %s, %s, %s)' % (
                e[0][0], zs(e[0][1]), zs(e[0][2]), copt(e[0][3], lambda p: clist(p, zs)), cbool(e[0][4]), coq_vres(e[1])))))
        metas.append((text, queries))
        if fi < 2:
            ctx.sample({'authorized_keys': text, 'queries': [list(q) for q in queries], 'results': [repr(g) for g in got]})
    for k, v in st.items():
        ctx.cov['oracle']['ak_' + k] = v
    bad = ctx.coq_cases('authorized_keys', IMPORTS, 'chk_ak', cases, shard=120,
                        ty='tables * text * list (Z * text * text * option (list text) * bool * option (option (list (text * obs))))')
    if bad:
        ctx.broke('correspondence:authorized_keys', f'{len(bad)} of {len(cases)} files differ; first: {metas[bad[0]]!r}')
    need = {'accepted': 100, 'rejected_by_from': 10, 'rejected_by_principals': 3, 'errors': 10, 'oracle_cases': 100, 'multi': 50,
            'same_key_cases': 50, 'same_key_later_line': 5}
    low = {k: st[k] for k, n in need.items() if st[k] < n}
    if low:
        ctx.broke('vacuity:authorized_keys', f'branches hit too rarely: {low} (need {need})')



# ================================================================================================
# stage: every documented way of supplying the data (paths, lists of paths, bytes, str, objects,
# callables, tuples), files that end with / without a newline, CRLF, empty files, split lines

FILE_ENDINGS = ['\n', '\n', '', '', '\r\n', '\n\n', ' ', '\r', '\n# c']


def canon_kh_result(r):
    return tuple(sorted({key_id(k) for k in cat}) for cat in r[:3])


def kh_supply_forms(paths, raw_texts, q):
    """The same data through every documented interface -> {form: result or ('exc', class)}."""
    import asyncssh
    host, addr, port = q
    out = {}

    def run(name, f):
        try:
            out[name] = canon_kh_result(f())
        except Exception as e:
            out[name] = ('exc', type(e).__name__)
    run('list_of_paths', lambda: asyncssh.match_known_hosts(list(paths), host, addr, port))
    run('read_known_hosts(list)', lambda: asyncssh.match_known_hosts(asyncssh.read_known_hosts(list(paths)), host, addr, port))
    run('object.match', lambda: asyncssh.read_known_hosts(list(paths)).match(host, addr, port))

    def as_callable():
        obj = asyncssh.read_known_hosts(list(paths))
        return asyncssh.match_known_hosts(lambda h, a, p: obj.match(h, a, p), host, addr, port)
    run('callable', as_callable)
    run('tuple', lambda: asyncssh.match_known_hosts(asyncssh.match_known_hosts(list(paths), host, addr, port), host, addr, port))
    joined = '\n'.join(raw_texts)
    run('bytes(newline-joined)', lambda: asyncssh.match_known_hosts(joined.encode('utf-8'), host, addr, port))
    run('import_known_hosts(str)', lambda: asyncssh.match_known_hosts(asyncssh.import_known_hosts(joined), host, addr, port))
    if len(paths) == 1:
        run('single_path', lambda: asyncssh.match_known_hosts(paths[0], host, addr, port))
        run('read_known_hosts(path)', lambda: asyncssh.match_known_hosts(asyncssh.read_known_hosts(paths[0]), host, addr, port))
    return out


def write_files(tmp, prefix, texts):
    paths = []
    for i, t in enumerate(texts):
        p = os.path.join(tmp, '%s%d' % (prefix, i))
        with open(p, 'wb') as f:
            f.write(t.encode('utf-8'))
        paths.append(p)
    return paths


def read_text(path):
    """File contents as asyncssh reads them (text mode, universal newlines); Python standard library only."""
    with open(path, 'r') as f:
        return f.read()


def gen_file_set(rng, gen_lines):
    """1-3 files; returns (raw texts, per-file line structs or None when a line was cut in two)."""
    k = rng.choice([1, 2, 2, 2, 3])
    texts, structs = [], []
    for _ in range(k):
        if rng.random() < 0.12:
            texts.append(rng.choice(['', '', '\n', '# only a comment', '   \n']))
            structs.append([])
            continue
        lines = gen_lines()
        sep = rng.choice(['\n', '\n', '\r\n'])
        texts.append(sep.join(ln['text'] for ln in lines) + rng.choice(FILE_ENDINGS))
        structs.append(lines)
    if k >= 2 and rng.random() < 0.25:
        # move the boundary between the first two files into the middle of a line
        whole = texts[0] + ('' if texts[0].endswith('\n') else '\n') + texts[1]
        cut = rng.randrange(1, max(2, len(whole)))
        texts[0], texts[1] = whole[:cut], whole[cut:]
        structs = None
    return texts, structs


def stage_supply_forms(ctx):
    rng = ctx.rng
    n = 260 if ctx.tier == 'thorough' else 60
    tmp = tempfile.mkdtemp(prefix='c17f-', dir='/var/tmp')
    st = {'multi': 0, 'no_final_newline_inside_list': 0, 'crlf': 0, 'empty_file': 0, 'cut_line': 0, 'selected': 0, 'ak_accepted': 0}
    cases_kh, metas_kh, cases_ak, metas_ak = [], [], [], []
    try:
        for i in range(n):
            # ---- known_hosts ----
            texts, structs = gen_file_set(rng, lambda: gen_kh_file(rng, True)[:rng.randint(1, 3)])
            paths = write_files(tmp, 'kh%d_' % i, texts)
            read = [read_text(p) for p in paths]
            all_lines = [ln for f in (structs or []) for ln in f]
            queries = [gen_query(rng, all_lines) for _ in range(2)] if all_lines else [(rng.choice(HOSTS), '', None), (rng.choice(HOSTS), rng.choice(ADDRS4), 2222)]
            st['multi'] += len(texts) > 1
            st['no_final_newline_inside_list'] += any(t and not t.endswith(('\n', '\r')) for t in texts[:-1])
            st['crlf'] += any('\r\n' in t for t in texts)
            st['empty_file'] += any(not t.strip() for t in texts)
            st['cut_line'] += structs is None
            values = {''}
            for h, a, p in queries:
                values |= {h, a, with_port(h, p), with_port(a, p)}
            whole = '\n'.join(read)
            tb = b64_table(whole)
            tabs = coq_tables(key_table(whole), tb, hmac_table(tb, values), ip6_table(pattern_cands(whole) | values))
            qs = []
            for q in queries:
                forms = kh_supply_forms(paths, texts, q)
                got = forms['list_of_paths']
                ctx.note_case(('kh-files', tuple(texts), q), nontrivial=not isinstance(got, tuple) or got[0] != 'exc' and any(got))
                ctx.count('supply.known_hosts.%d_files' % len(texts))
                if got and got[0] != 'exc':
                    st['selected'] += any(got)
                qs.append((q[0], q[1], q[2] or 0, None if got[0] == 'exc' else got))
                bad = sorted(k for k, v in forms.items() if v != got)
                exp = None
                if structs is not None and not bad:
                    (et, ec, er), _fb = ref.kh_lookup(all_lines, *q)
                    if got[0] == 'exc' or (set(got[0]), set(got[1]), set(got[2])) != (et, ec, er):
                        exp = (sorted(et), sorted(ec), sorted(er))
                if bad or exp is not None:
                    report(ctx, 'kh_supply_forms',
                           f'known_hosts given as the file list {texts!r}, lookup {q!r}: match_known_hosts(list of paths) gave {got!r}; '
                           + (f'the same data through {bad} gave {[forms[k] for k in bad]!r}' if bad else f'the file-format rules give {exp!r}')
                           + ' (a line never spans two files; every way of supplying the data must agree)',
                           {'kind': 'kh_supply_forms', 'file': 'known_hosts_files', 'files': texts, 'lines_per_file': structs, 'query': list(q)})
            cases_kh.append('(%s, %s, %s)' % (tabs, clist(read, zs), clist(qs, lambda e: '(%s, %s, %s, %s)' % (
                zs(e[0]), zs(e[1]), cz(e[2]), copt(e[3], lambda g: '(%s, %s, %s)' % (zl(g[0]), zl(g[1]), zl(g[2])))))))
            metas_kh.append((texts, queries))
            # ---- authorized_keys ----
            texts, structs = gen_file_set(rng, lambda: [gen_ak_line(rng, gen_ossh_options) for _ in range(rng.randint(1, 2))])
            paths = write_files(tmp, 'ak%d_' % i, texts)
            read = [read_text(p) for p in paths]
            all_lines = [ln for f in (structs or []) for ln in f]
            queries = [gen_ak_query(rng, all_lines or [{'key': 0}]) for _ in range(2)]
            got, exc = impl_ak_files(paths, queries)
            joined, _ = impl_ak('\n'.join(texts), queries)
            each_ok = all(impl_ak_files([p], [])[1] is None for p in paths)     # every file loads on its own
            for q, g, j in zip(queries, got, joined):
                ctx.note_case(('ak-files', tuple(texts), q), nontrivial=g is not None and g[0] == 'opts')
                ctx.count('supply.authorized_keys.%d_files' % len(texts))
                st['ak_accepted'] += g is not None and g[0] == 'opts'
                if each_ok and g != j:
                    report(ctx, 'ak_supply_forms',
                           f'authorized_keys given as the file list {texts!r}, validate{q!r}: read_authorized_keys(list) gave {g!r}, '
                           f'import_authorized_keys of the newline-joined contents gave {j!r} (a line never spans two files)',
                           {'kind': 'ak_supply_forms', 'file': 'authorized_keys_files', 'files': texts, 'query': list(q)})
            whole = '\n'.join(read)
            cands = set()
            for q in queries:
                cands |= {q[1], q[2]}
            for variant in (whole, whole.replace('"', '')):
                for m in re.finditer(r'[0-9a-fA-F:.]*:[0-9a-fA-F:.]*(/\d+)?', variant):
                    cands.add(m.group(0))
                cands |= pattern_cands(variant.replace('"', ' ').replace('=', ' '))
            cases_ak.append('(%s, %s, %s)' % (
                coq_tables(key_table(whole), [], [], ip6_table(cands)), clist(read, zs),
                clist(list(zip(queries, got)), lambda e: '(%d, %s, %s, %s, %s, %s)' % (
                    e[0][0], zs(e[0][1]), zs(e[0][2]), copt(e[0][3], lambda p: clist(p, zs)), cbool(e[0][4]), coq_vres(e[1])))))
            metas_ak.append((texts, queries))
            for p in os.listdir(tmp):
                os.remove(os.path.join(tmp, p))
    finally:
        shutil.rmtree(tmp, ignore_errors=True)
    for k, v in st.items():
        ctx.cov['oracle']['supply_' + k] = v
    bad = ctx.coq_cases('known_hosts_files', IMPORTS, 'chk_kh_files', cases_kh, shard=60,
                        ty='tables * list text * list (text * text * Z * option (list Z * list Z * list Z))')
    if bad:
        ctx.broke('correspondence:known_hosts_files', f'{len(bad)} of {len(cases_kh)} file lists differ; first: {metas_kh[bad[0]]!r}')
    bad = ctx.coq_cases('authorized_keys_files', IMPORTS, 'chk_ak_files', cases_ak, shard=60,
                        ty='tables * list text * list (Z * text * text * option (list text) * bool * option (option (list (text * obs))))')
    if bad:
        ctx.broke('correspondence:authorized_keys_files', f'{len(bad)} of {len(cases_ak)} file lists differ; first: {metas_ak[bad[0]]!r}')
    need = {'multi': 20, 'no_final_newline_inside_list': 5, 'crlf': 3, 'empty_file': 3, 'cut_line': 3, 'selected': 10, 'ak_accepted': 5}
    low = {k: st[k] for k, v in need.items() if st[k] < v}
    if low:
        ctx.broke('vacuity:supply_forms', f'classes hit too rarely: {low} (need {need})')


def impl_ak_files(paths, queries):
    """read_authorized_keys(list of paths) then validate, same observation as impl_ak."""
    import asyncssh
    try:
        ak = asyncssh.read_authorized_keys(list(paths)) if len(paths) != 1 else asyncssh.read_authorized_keys(paths[0])
    except Exception as e:
        return [None] * len(queries), type(e).__name__
    out, exc = [], None
    for key, host, addr, princs, ca in queries:
        try:
            r = ak.validate(key_obj(key), host, addr, princs, ca)
            out.append(('none',) if r is None else ('opts', canon_opts(r)))
        except Exception as e:
            out.append(None)
            exc = type(e).__name__
    return out, exc

# ================================================================================================

def run(ctx):
    ctx.cov['rule'] = (
        'known_hosts files of 1-7 generated lines (markers, comma lists of exact names / wildcards / negations / [host]:port / '
        'CIDR / hashed names with random salts / empty and odd components, good and damaged key fields, odd separators and line '
        'ends) x lookups aimed at the names in the file (host, address, port); authorized_keys lines with option strings in the '
        'documented OpenSSH grammar (quotes, \\", commas, repeats, keyword case) and free-form ones (partial quotes, escapes, '
        'malformed pieces) x client (host, address, principals, ca); wildcard patterns exhaustively over a small alphabet; '
        'the same data through every documented interface (path, list of paths, bytes, str, object, callable, tuple) as 1-3 files '
        'ending with/without newline, CRLF, empty, or cut inside a line; '
        'a case is non-trivial when a line is selected / an entry is returned / a pattern has a wildcard, negation or CIDR; '
        'distinct = distinct (file text, query) tuples')
    ctx.cov['trusted_base'] += [
        'key import (import_public_key), base64 decoding, HMAC-SHA1 and IPv6 text parsing are external functions of the model '
        '(record `ext`; theorems hold for every such function); in the correspondence they are tables recorded during the run '
        '(key import from asyncssh itself, the others from the Python standard library)',
        'premise importer_total (import_public_key fails with KeyImportError only) of the damaged-key theorems is an assumption '
        'about the key importer; every run checks it on all generated key fields (15 kinds of damage incl. impossible RSA/EC/DSA '
        'parameters) and alarms if an import raises anything else',
        'str.lower() on option keywords is modelled for ASCII letters only',
        'fnmatch / re, ipaddress (IPv4 parsing and netmasks are modelled and tied; IPv6 parsing is not), str.splitlines/strip/split '
        '(modelled and tied, whitespace tables checked against the running interpreter)',
        'the direct oracle is harness/c17_ref.py, written from the OpenSSH manual pages and sources; on single-name known_hosts '
        'lookups it is itself cross-checked against `ssh-keygen -F` (OpenSSH 9.2) on every run',
        'for a lookup with both a host name and an address the reference applies each pattern list to both names jointly (the '
        "property's wording: a negated match always excludes the line); OpenSSH itself looks the two names up separately",
        'the oracle abstains where no documented rule exists: CIDR entries (with a slash) in known_hosts '
        '(asyncssh extension; undecorated address entries are judged as the plain names they are), option strings OpenSSH would refuse (unquoted values, unknown flags, duplicate environment names), '
        'structurally malformed lines (unknown marker, missing fields, malformed hash) - the correspondence covers all of these',
        'int() in permitopen is modelled for ASCII digits, sign, underscores and surrounding blanks only',
        'not modelled: X.509 certificate/subject entries, the subject= option, scoped IPv6 addresses (%zone), OpenSSH '
        'certificates placed in known_hosts, reading from files (only the text interfaces are exercised)',
    ]
    core.setup_paths()
    ctx.prove()
    stage_wild(ctx)
    stage_ip(ctx)
    stage_options_tokenizer(ctx)
    stage_known_hosts(ctx)
    stage_authorized_keys(ctx)
    stage_supply_forms(ctx)
    # premise importer_total of the skipped-line theorems: the importer fails with KeyImportError only
    ctx.cov['oracle']['importer_non_KeyImportError_outcomes'] = len(_IMPORT_RAISED)
    if _IMPORT_RAISED:
        ctx.broke('assumption:importer_total',
                  f'import_public_key raised {_IMPORT_RAISED[0][1]} (not KeyImportError) on the key field {_IMPORT_RAISED[0][0]!r}; '
                  f'{len(_IMPORT_RAISED)} such fields - the premise of C17_unparsable_key_line_inert / C17_ak_not_a_key_line does not hold')


def replay(rp):
    core.setup_paths()
    kind = rp.get('kind')
    if kind in ('wild',):
        from asyncssh.pattern import WildcardPattern
        got = WildcardPattern(rp['pattern']).matches(rp['value'])
        exp = ref.wild(rp['pattern'], rp['value'])
        print('WildcardPattern ->', got, 'rules ->', exp)
        return 1 if got != exp else 0
    if kind == 'wpl':
        from asyncssh.pattern import WildcardPatternList
        got = WildcardPatternList(rp['patterns']).matches(rp['value'])
        exp = ref.plist(rp['patterns'], [rp['value']], None, False)
        print('WildcardPatternList ->', got, 'rules ->', exp)
        return 1 if got != exp else 0
    if kind == 'hpl':
        from asyncssh.pattern import HostPatternList
        from asyncssh.misc import ip_address
        ip = ip_address(rp['addr']) if rp['addr'] else None
        got = HostPatternList(rp['patterns']).matches(rp['host'], rp['addr'], ip)
        exp = ref.plist(rp['patterns'], [n for n in (rp['host'], rp['addr']) if n], ref.parse_ip(rp['addr']), True)
        print('HostPatternList ->', got, 'rules ->', exp)
        return 1 if got != exp else 0
    if rp.get('file') in ('known_hosts_files', 'authorized_keys_files'):
        tmp = tempfile.mkdtemp(prefix='c17r-', dir='/var/tmp')
        try:
            paths = write_files(tmp, 'f', rp['files'])
            q = tuple(rp['query'])
            if rp['file'] == 'known_hosts_files':
                forms = kh_supply_forms(paths, rp['files'], q)
                got = forms['list_of_paths']
                bad = sorted(k for k, v in forms.items() if v != got)
                print('list of paths ->', got, '; disagreeing forms ->', {k: forms[k] for k in bad})
                if not bad and rp.get('lines_per_file') is not None:
                    (et, ec, er), _ = ref.kh_lookup([ln for f in rp['lines_per_file'] for ln in f], *q)
                    print('rules ->', (sorted(et), sorted(ec), sorted(er)))
                    return 0 if got[0] != 'exc' and (set(got[0]), set(got[1]), set(got[2])) == (et, ec, er) else 1
                return 1 if bad else 0
            g, _ = impl_ak_files(paths, [q])
            j, _ = impl_ak('\n'.join(rp['files']), [q])
            print('read_authorized_keys(list) ->', g[0], '; newline-joined ->', j[0])
            return 1 if g != j else 0
        finally:
            shutil.rmtree(tmp, ignore_errors=True)
    if rp.get('file') == 'known_hosts' and kind == 'damaged_key':
        lines = rp['lines']
        bad = {'text': rp['bad_line'], 'skip': True}
        pos = rp['position']
        q = rp['query']
        r0, _ = impl_kh(kh_text(lines, True, None), *q)
        r1, exc = impl_kh(kh_text(lines[:pos] + [bad] + lines[pos:], True, None), *q)
        print('without the damaged line ->', r0, '; with it ->', r1 if r1 is not None else 'exception ' + str(exc))
        return 1 if r0 is not None and r1 != r0 else 0
    if rp.get('file') == 'known_hosts':
        lines = rp['lines']
        host, addr, port = rp['query']
        text = kh_text(lines, True, None)
        got, exc = impl_kh(text, host, addr, port)
        (et, ec, er), _fb = ref.kh_lookup(lines, host, addr, port)
        print('match_known_hosts ->', got if got is not None else 'exception ' + str(exc), '; rules -> ', (sorted(et), sorted(ec), sorted(er)))
        return 0 if got is not None and (set(got[0]), set(got[1]), set(got[2])) == (et, ec, er) else 1
    if rp.get('file') == 'authorized_keys_lines':
        q = tuple(rp['query'])
        got, exc = impl_ak(''.join(ln['text'] + '\n' for ln in rp['lines']), [q])
        exps = [ak_expected(ln, q) for ln in rp['lines']]
        exp = next((e for e in exps if e[0] == 'opts'), ('none',))
        print('validate ->', got[0] if got[0] is not None else 'exception ' + str(exc), '; first matching line ->', exp)
        return 0 if ak_compare(exp, got[0]) else 1
    if rp.get('file') == 'authorized_keys' and kind == 'damaged_key':
        pos = rp['position']
        qs = [tuple(q) for q in rp['queries']]
        t0 = ''.join(t + '\n' for t in rp['lines'])
        t1 = ''.join(t + '\n' for t in rp['lines'][:pos] + [rp['bad_line']] + rp['lines'][pos:])
        r0, _ = impl_ak(t0, qs)
        r1, exc = impl_ak(t1, qs)
        print('without the damaged line ->', r0, '; with it ->', r1, exc or '')
        return 1 if all(r is not None for r in r0) and r1 != r0 else 0
    if rp.get('file') == 'authorized_keys':
        line = rp['line']
        q = tuple(rp['query'])
        got, exc = impl_ak(line['text'] + '\n', [q])
        exp = ak_expected(line, q)
        print('validate ->', got[0] if got[0] is not None else 'exception ' + str(exc), '; rules ->', exp)
        return 0 if exp is None or ak_compare(exp, got[0]) else 1
    print('unknown replay kind', kind)
    return 2
