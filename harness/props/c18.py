"""C18 - Config files resolve like OpenSSH, and never expand unsafe input."""
import getpass
import itertools
import ntpath
import os
import posixpath
import re
import shlex
import shutil
import socket
import subprocess
import tempfile

from .. import core
from ..core import zl, zs, copt, cbool, clist, cz

IMPORTS = ('Require Import Coq.Strings.String.\n'
           'From AV Require Import Base.Prelude Model.Config Corr.C18Corr.')
SSH = '/usr/bin/ssh'
SENT = object()

KIND_CODE = {'KHost': 0, 'KMatch': 1, 'KInclude': 2, 'KAddrFam': 3, 'KBool': 4, 'KBoolOrStr': 5, 'KInt': 6,
             'KString': 7, 'KAppendString': 8, 'KStringList': 9, 'KAppendStringList': 10, 'KCanonHost': 11,
             'KRekey': 12, 'KHostname': 13, 'KRequestTTY': 14}
HANDLER_KIND = {'_match_host': 'KHost', '_match': 'KMatch', '_include': 'KInclude',
                '_set_address_family': 'KAddrFam', '_set_bool': 'KBool', '_set_bool_or_str': 'KBoolOrStr',
                '_set_int': 'KInt', '_set_string': 'KString', '_append_string': 'KAppendString',
                '_set_string_list': 'KStringList', '_append_string_list': 'KAppendStringList',
                '_set_canonicalize_host': 'KCanonHost', '_set_rekey_limits': 'KRekey',
                '_set_hostname': 'KHostname', '_set_request_tty': 'KRequestTTY'}

ENV_VARS = {'C18_A': 'valA', 'C18_B': 'b b', 'C18_EMPTY': '', 'C18_REF': 'x${C18_A}y%h'}


def model_tables():
    """option names and kinds as written in coq/Model/Config.v (single source for the harness)"""
    src = core.strip_coq_comments(open(os.path.join(core.COQ, 'Model', 'Config.v')).read())
    out = {}
    for which in ('client_table', 'server_table'):
        m = re.search(r'Definition %s\b.*?:=\s*\[(.*?)\]\.' % which, src, re.S)
        out[which] = re.findall(r'T "(\w+)" (\w+)', m.group(1))
    return out


_TABLES = None


def tables():
    global _TABLES
    if _TABLES is None:
        _TABLES = model_tables()
    return _TABLES


def option_names(client):
    return [n for n, k in tables()['client_table' if client else 'server_table']
            if k not in ('KHost', 'KMatch', 'KInclude')]


def kinds(client):
    return dict(tables()['client_table' if client else 'server_table'])


# --------------------------------------------------------------------------------------------
# Coq literals

def cvalue(name, v):
    if isinstance(v, bool):
        return '(VBool %s)' % cbool(v)
    if isinstance(v, int):
        if name == 'AddressFamily':
            v = {int(socket.AF_UNSPEC): 0, int(socket.AF_INET): 4, int(socket.AF_INET6): 6}.get(int(v), -1)
        return '(VInt %s)' % cz(v)
    if isinstance(v, str):
        return '(VStr %s)' % zs(v)
    if v is None:
        return 'VNone'
    if isinstance(v, list) and all(isinstance(x, str) for x in v):
        return '(VList %s)' % clist(v, zs)
    if isinstance(v, tuple) and len(v) == 2:
        def rk(x):
            return 'RkDefault' if x == () else 'RkNone' if x is None else '(RkStr %s)' % zs(x)
        return '(VRekey %s %s)' % (rk(v[0]), rk(v[1]))
    raise ValueError('unprintable option value %r' % (v,))


def copts(d):
    return clist(sorted(d.items()), lambda kv: '(%s, %s)' % (zs(kv[0]), cvalue(kv[0], kv[1])))


def cresult(r):
    if r[0] == 'err':
        return '(Err %s)' % r[1]
    return '(Ok (%s, %s))' % (copts(r[1]), cbool(r[2]))


def cenv(client, canonical, final, local_user, host, user, addr, laddr, lport, lhost, home, uid, environ, fs,
         quirks='impl_quirks'):
    return ('(Build_env %s %s %s %s %s %s %s %s %s %s %s %s %s %s %s)' % (
        cbool(client), quirks, cbool(canonical), cbool(final), zs(local_user), zs(host), zs(user), zs(addr),
        zs(laddr), zs(lport), zs(lhost), zs(home), copt(uid, zs),
        clist(sorted(environ.items()), lambda kv: '(%s, %s)' % (zs(kv[0]), zs(kv[1]))),
        clist(fs, lambda pl: '(%s, %s)' % (zs(pl[0]), clist(pl[1], zs)))))


def decode_coq(out):
    """make vm_compute output readable: lists of code points become quoted text"""
    def rep(m):
        nums = [int(x) for x in re.findall(r'-?\d+', m.group(0))]
        if nums and all(9 <= n < 127 for n in nums):
            return repr(''.join(chr(n) for n in nums))
        return m.group(0)
    return re.sub(r'\[\s*-?\d+(?:\s*;\s*-?\d+)*\s*\]', rep, out)


def explain(ctx, term):
    """evaluate a model term inside Coq for a diagnostic message"""
    try:
        return ' '.join(decode_coq(ctx.coq_eval(IMPORTS, term, timeout=120)).split())[:1500]
    except Exception as e:  # noqa
        return 'explain failed: %r' % (e,)


def report(ctx, key, what, replay):
    """one failing input per distinct finding key; later ones are only counted.  core prints/writes the first five
    of a run, the rest are written here and listed in evidence."""
    seen = ctx.cov['oracle'].setdefault('findings', [])
    if any(f['key'] == key for f in seen):
        ctx.count('more:' + key, group='oracle')
        return
    before = ctx.violations
    hit = ctx.failing_input(what, replay)
    rec = {'key': key, 'what': what[:600], 'known': not hit}
    if hit and before >= 5:
        writer = getattr(ctx, '_write_replay', None)
        if writer:
            r = dict(replay)
            r.setdefault('property', ctx.pid)
            r['what'] = what
            rec['replay'] = writer(r)
    seen.append(rec)


def canon_result(r):
    """JSON-able form of an observed result"""
    if r[0] == 'err':
        return ['err', r[1]]
    return ['ok', {k: repr(v) for k, v in sorted(r[1].items())}, r[2]]


# --------------------------------------------------------------------------------------------
# world: files on disk + the real loaders

class World:
    """A scratch directory tree holding config files; HOME points at <root>/home."""

    def __init__(self):
        self.root = os.path.realpath(tempfile.mkdtemp(prefix='c18-', dir='/var/tmp'))
        self.home = os.path.join(self.root, 'home')
        os.makedirs(os.path.join(self.home, '.ssh'))
        self.saved = {k: os.environ.get(k) for k in list(ENV_VARS) + ['HOME', 'C18_MISSING']}
        os.environ['HOME'] = self.home
        os.environ.pop('C18_MISSING', None)
        os.environ.update(ENV_VARS)
        self.n = 0

    def close(self):
        for k, v in self.saved.items():
            if v is None:
                os.environ.pop(k, None)
            else:
                os.environ[k] = v
        shutil.rmtree(self.root, ignore_errors=True)

    def case_dir(self):
        """fresh sub-tree for one generated program: returns (abs dir, home-relative dir under ~/.ssh)"""
        self.n += 1
        name = 'p%d' % self.n
        d = os.path.join(self.root, name)
        os.makedirs(d)
        return d, name

    def write(self, path, text):
        os.makedirs(os.path.dirname(path), exist_ok=True)
        with open(path, 'w', newline='') as f:
            f.write(text)

    def listing(self, dirs):
        """regular files below the given directories in os.scandir (pathlib.glob) order, with their lines"""
        out = []

        def walk(d):
            try:
                ents = list(os.scandir(d))
            except OSError:
                return
            for e in ents:
                if e.is_dir(follow_symlinks=True):
                    walk(e.path)
                elif e.is_file(follow_symlinks=True):
                    out.append((e.path, open(e.path, newline='').read().split('\n')))
        for d in dirs:
            walk(d)
        return out

    def environ(self):
        e = dict(ENV_VARS)
        e['HOME'] = self.home
        return e


def classify(exc):
    from asyncssh.config import ConfigParseError
    from asyncssh.misc import IllegalUserName
    if isinstance(exc, ConfigParseError):
        return 'EParse'
    if isinstance(exc, IllegalUserName):
        return 'EUser'
    if isinstance(exc, RecursionError):
        return 'EFuel'
    return 'ECrash'


def observe(cfg, client):
    d = {}
    for n in option_names(client):
        v = cfg.get(n, SENT)
        if v is not SENT:
            d[n] = v
    return d


def load_client(paths, host, user=(), port=(), canonical=False, final=False, local_user='luser', last=None,
                reload=False):
    from asyncssh.config import SSHClientConfig
    try:
        cfg = SSHClientConfig.load(last, paths, reload, canonical, final, local_user, user, host, port)
    except Exception as e:  # noqa
        return ('err', classify(e)), None
    return ('ok', observe(cfg, True), bool(cfg.has_match_final())), cfg


def load_server(paths, user, host, addr, laddr='5.6.7.8', lport=22, canonical=False, final=False, last=None,
                reload=False):
    from asyncssh.config import SSHServerConfig
    try:
        cfg = SSHServerConfig.load(last, paths, reload, canonical, final, laddr, lport, user, host, addr)
    except Exception as e:  # noqa
        return ('err', classify(e)), None
    return ('ok', observe(cfg, False), bool(cfg.has_match_final())), cfg


# --------------------------------------------------------------------------------------------
# generators

HOSTS = ['host', 'web1.example.com', 'db', 'HOST', 'a-b.example.org', '10.0.0.5', 'h[1]', 'web2.example.com']
HOST_PATS = ['*', 'host', 'db', '*.example.com', 'web?.example.com', 'h*t', '!db', 'd?', 'HOST', 'h[1]', '[h]ost',
             'web1.example.com', '*.example.*', '10.0.0.*', '!*.example.org', 'ho?t,db', '*,!host', '!web*,*',
             'a-b.example.org', '?', '', 'h*', '*b']
USERS = ['alice', 'bob', 'root', 'al%ice', 'luser']
USER_PATS = ['alice', 'bob', '*', 'a*', '!root', 'root,alice', 'luser', '?ob', '!a*,*']
WORDS = ['a', 'b1', 'x.y', 'some-val', 'UPPER', 'none', 'None', 'yes', 'no', '~/.ssh/k', '/abs/path', 'k=v', 'a,b',
         'with space', 'q"uote', "s'q", 'back\\slash', '#hash', 'tab\there', '*', 'x=', '=y']
TOKEN_VALS = ['%h', '%%', '%d/x', '${HOME}/a', '%r@%h:%p', '%n', '%L-%l', '%u', '%i', 'id_%%h', '%%%h', '${C18_A}',
              'a${C18_B}c', '${C18_EMPTY}', '${C18_REF}', '%', 'x%', '$', '${', '${C18_A', '$%%{C18_A}', '%h%p%r',
              '~/.ssh/%h_%r', '%%d', '$${C18_A}', '%%${C18_A}%%']
BAD_TOKEN_VALS = ['%z', '%Z18', '${C18_MISSING}', '%{', '${}']


def spell(rng, kw):
    r = rng.random()
    if r < 0.55:
        return kw
    if r < 0.7:
        return kw.lower()
    if r < 0.8:
        return kw.upper()
    return ''.join(c.upper() if rng.random() < 0.5 else c.lower() for c in kw)


def quote(rng, arg, force=False):
    """render one argument so that shlex gives it back"""
    special = (arg == '' or any(c in arg for c in ' \t"\'\\') or arg.startswith('#'))
    r = rng.random()
    if not special and not force and r < 0.7:
        return arg
    if "'" not in arg and r < 0.35:
        return "'" + arg + "'"
    if special or r < 0.8:
        return '"' + arg.replace('\\', '\\\\').replace('"', '\\"') + '"'
    # partial quoting / backslash escapes outside quotes
    if len(arg) >= 2 and r < 0.9:
        k = rng.randint(1, len(arg) - 1)
        return arg[:k] + '"' + arg[k:] + '"'
    return ''.join('\\' + c if rng.random() < 0.3 else c for c in arg)


def delim(rng):
    return rng.choice([' ', ' ', ' ', '\t', '=', ' = ', ' =', '= ', '  '])


def gen_value(rng, name, kind, tokens_ok=True, bad=0.04):
    """list of argument strings for an option line"""
    r = rng.random()
    if kind == 'KBool':
        return [rng.choice(['yes', 'no', 'true', 'false', 'Yes', 'NO', 'True'] if r > bad else ['maybe', '1', ''])]
    if kind == 'KInt':
        return [rng.choice(['22', '2222', '0', '7', '65535', '-1', '+7', '1_0', '007'] if r > bad
                           else ['x', '2 2', '', '1__0', '0x10', '_1', '1_'])]
    if kind == 'KAddrFam':
        return [rng.choice(['any', 'inet', 'inet6', 'INET'] if r > bad else ['ipv4'])]
    if kind == 'KCanonHost':
        return [rng.choice(['yes', 'no', 'always', 'Always', 'false'] if r > bad else ['never'])]
    if kind == 'KRequestTTY':
        return [rng.choice(['yes', 'no', 'force', 'auto', 'Force'] if r > bad else ['maybe'])]
    if kind == 'KRekey':
        return rng.choice([['1G'], ['1G', '1h'], ['default'], ['default', 'none'], ['1M', 'None'], ['Default', '30M']])
    if kind == 'KBoolOrStr':
        return [rng.choice(['yes', 'no', 'True', '~/agent.sock', '%d/agent', '${C18_A}', 'SSH_AUTH_SOCK'])]
    pct = name in ('CertificateFile', 'IdentityAgent', 'IdentityFile', 'ProxyCommand', 'RemoteCommand',
                   'AuthorizedKeysFile', 'Hostname')
    def one():
        x = rng.random()
        if pct and tokens_ok and x < 0.55:
            if name == 'Hostname':
                return rng.choice(['%h', '%h.example.com', 'gw-%h', '%%h', 'real.example.com', '%p', '${C18_A}.x', '%n'])
            if name == 'AuthorizedKeysFile':
                return rng.choice(['%u', '/keys/%u/ak', '.ssh/%u', '%%u', '/k/%u.pub', '${C18_A}/%u', '%h'])
            if x < 0.03:
                return rng.choice(BAD_TOKEN_VALS)
            return rng.choice(TOKEN_VALS)
        return rng.choice(WORDS)
    if kind in ('KStringList', 'KAppendStringList'):
        n = rng.choice([1, 1, 2, 3])
        return [one() for _ in range(n)]
    if kind in ('KString', 'KAppendString', 'KHostname'):
        if rng.random() < 0.03:
            return [one(), one()]           # extra data
        return [one()]
    raise AssertionError(kind)


CLIENT_FREQ = ['Port', 'User', 'Hostname', 'Compression', 'IdentityFile', 'CertificateFile', 'SendEnv', 'SetEnv',
               'UserKnownHostsFile', 'ForwardAgent', 'IdentityAgent', 'ProxyCommand', 'RemoteCommand', 'Tag',
               'AddressFamily', 'RekeyLimit', 'RequestTTY', 'CanonicalizeHostname', 'ConnectTimeout', 'BindAddress',
               'ProxyJump', 'HostKeyAlias', 'Hostname', 'User', 'Tag', 'IdentityFile', 'SendEnv']
SERVER_FREQ = ['AuthorizedKeysFile', 'PermitTTY', 'Port', 'HostKey', 'HostCertificate', 'LoginGraceTime', 'Compression',
               'AllowAgentForwarding', 'PasswordAuthentication', 'RekeyLimit', 'BindAddress', 'AddressFamily',
               'AuthorizedKeysFile', 'HostKey', 'Ciphers', 'UseDNS']


def option_line(rng, client, tokens_ok=True, bad=0.04):
    ks = kinds(client)
    names = option_names(client)
    name = rng.choice(CLIENT_FREQ if client else SERVER_FREQ) if rng.random() < 0.8 else rng.choice(names)
    kind = ks[name]
    vals = gen_value(rng, name, kind, tokens_ok, bad)
    if name in ('ProxyCommand', 'RemoteCommand'):
        # raw rest of line
        raw = rng.choice(['ssh -W %h:%p gw', 'nc %h %p', '"quoted cmd" %r', 'cmd  two  spaces', 'none', 'x=%%y',
                          'echo ${C18_A}', "it's"]) if rng.random() < 0.7 else ' '.join(vals)
        return spell(rng, name) + rng.choice([' ', '  ', '\t', '=', ' = ']) + raw
    if rng.random() < bad / 2:
        return spell(rng, name)            # missing value
    return spell(rng, name) + delim(rng) + ' '.join(quote(rng, v) for v in vals)


def match_line(rng, client):
    crits = []
    n = rng.choice([1, 1, 1, 2, 2, 3])
    for _ in range(n):
        neg = '!' if rng.random() < 0.3 else ''
        r = rng.random()
        if client:
            c = rng.choice(['all', 'canonical', 'final', 'host', 'host', 'originalhost', 'user', 'user', 'localuser', 'tagged'])
        else:
            c = rng.choice(['all', 'canonical', 'final', 'user', 'user', 'host', 'host', 'localport'])
        if r < 0.015:
            c = rng.choice(['bogus', '', 'group'])
        cs = spell(rng, c)
        if c in ('all', 'canonical', 'final'):
            crits.append(neg + cs)
            continue
        if c in ('host', 'originalhost'):
            pat = rng.choice(HOST_PATS + ['real.example.com', 'gw-*', '*.x'])
        elif c in ('user', 'localuser'):
            pat = rng.choice(USER_PATS)
        elif c == 'tagged':
            pat = rng.choice(['a', 'b1', '*', 'x.y', '!a', 'UPPER'])
        elif c == 'localport':
            pat = rng.choice(['22', '2222', '2*', '!22'])
        else:
            pat = 'x'
        if rng.random() < 0.012:
            crits.append(neg + cs)          # missing pattern
        elif rng.random() < 0.15:
            crits.append(neg + cs + '=' + quote(rng, pat))
        else:
            crits.append(neg + cs + ' ' + quote(rng, pat))
    return spell(rng, 'Match') + rng.choice([' ', ' ', '\t', '=']) + ' '.join(crits)


def host_line(rng):
    pats = [rng.choice(HOST_PATS) for _ in range(rng.choice([1, 1, 2, 3]))]
    return spell(rng, 'Host') + rng.choice([' ', ' ', '\t', '=', ' = ']) + ' '.join(quote(rng, p) for p in pats)


MALFORMED = ['"unterminated', "also 'open", 'Port "22', 'trailing\\', '= foo', '=', '"" x', 'Port 22 extra', 'Compression',
             'Bogus value', 'bogus', 'Port=', 'Port = ', '==Port 22', 'Host', 'Match', 'Include', 'Match user',
             'Match ""', 'Match !', '""', 'port=22=23', '   # indented comment', 'Port 22 # not a comment']


def gen_program(rng, w, client, nmain=1, include_prob=0.12, tokens_ok=True, bad=0.04, size=None):
    """Write a config program into a fresh case directory.  Returns dict(main=[paths], files={path: text},
    dirs=[...]) where dirs are the directories Include may reach."""
    d, rel = w.case_dir()
    sshdir = os.path.join(w.home, '.ssh', rel)
    absd = os.path.join(d, 'abs.d')
    files = {}
    names_rel = ['inc_a', 'inc_b']
    names_confd = ['10-x.conf', '20-y.conf', 'b.conf', 'a.conf', 'z.conf', 'M.conf', 'k.cfg'][:rng.randint(1, 7)]
    names_abs = ['one.conf', 'two.conf', 'three.conf'][:rng.randint(1, 3)]
    inc_targets = ([os.path.join(sshdir, n) for n in names_rel] +
                   [os.path.join(sshdir, 'conf.d', n) for n in names_confd] +
                   [os.path.join(sshdir, 'conf', 'a.conf')] +      # "conf" / "conf.d": Path order and strcmp order differ
                   [os.path.join(absd, n) for n in names_abs])
    inc_patterns = ([rel + '/inc_a', rel + '/inc_b', rel + '/inc_?', rel + '/conf.d/*.conf', rel + '/conf.d/*',
                     rel + '/conf.d/??-*.conf', rel + '/nomatch*', '~/.ssh/' + rel + '/inc_a',
                     '~/.ssh/' + rel + '/conf.d/*.c*', absd + '/*.conf', absd + '/one.conf', absd + '/t*.conf',
                     absd + '/missing', rel + '/*/a.conf', rel + '/c*/?.conf'])

    def body(depth, n):
        lines = []
        for _ in range(n):
            r = rng.random()
            if r < include_prob and depth < 2:
                pats = [rng.choice(inc_patterns) for _ in range(rng.choice([1, 1, 2]))]
                lines.append(spell(rng, 'Include') + rng.choice([' ', ' ', '=', '\t']) + ' '.join(quote(rng, p) for p in pats))
            elif r < include_prob + 0.13:
                lines.append(host_line(rng) if client and rng.random() < 0.6 else match_line(rng, client))
            elif r < include_prob + 0.13 + 0.05:
                lines.append(rng.choice(['', '# comment', '   ', '#Port 1', '\t#x']))
            elif r < include_prob + 0.13 + 0.05 + bad:
                lines.append(rng.choice(MALFORMED))
            else:
                lines.append(option_line(rng, client, tokens_ok, bad))
            if rng.random() < 0.2:
                lines[-1] = rng.choice([' ', '\t', '  ']) + lines[-1] + rng.choice(['', ' ', '\t'])
        return lines

    used_inc = include_prob > 0
    if used_inc:
        for p in inc_targets:
            files[p] = '\n'.join(body(1 if 'conf.d' in p or 'abs.d' in p else 1, rng.randint(0, 5))) + rng.choice(['\n', ''])
    mains = []
    for i in range(nmain):
        p = os.path.join(d, 'main%d' % i)
        files[p] = '\n'.join(body(0, size or rng.randint(1, 12))) + rng.choice(['\n', ''])
        mains.append(p)
    for p, t in files.items():
        w.write(p, t)
    return {'main': mains, 'files': files, 'dirs': [sshdir], 'dir': d}


def gen_target(rng):
    host = rng.choice(HOSTS)
    user = rng.choice([(), (), (), 'alice', 'bob', 'al%ice'])
    port = rng.choice([(), (), (), 22, 2222])
    return host, user, port


# --------------------------------------------------------------------------------------------
# stage: tables

def stage_tables(ctx):
    from asyncssh.config import SSHClientConfig, SSHServerConfig
    for client, cls in ((True, SSHClientConfig), (False, SSHServerConfig)):
        h = getattr(cls, '_handlers', None)
        if not isinstance(h, dict):
            ctx.cov['correspondence']['tables'] = {'unavailable': True}
            ctx.broke('vacuity:tables', 'handler table attribute is gone; cannot tie option kinds to the code')
            return
        entries = []
        for lo, (opt, fn) in sorted(h.items()):
            kind = HANDLER_KIND.get(getattr(fn, '__name__', ''), None)
            entries.append('(%s, %s, %d)' % (zs(lo), zs(opt), KIND_CODE.get(kind, 99)))
        pct = sorted(getattr(cls, '_percent_expand', []))
        nos = sorted(getattr(cls, '_no_split', []))
        cond = sorted(getattr(cls, '_conditionals', []))
        case = '(%s, %s, %s, %s, %s)' % (cbool(client), clist(entries), clist(pct, zs), clist(nos, zs), clist(cond, zs))
        bad = ctx.coq_cases('tables', IMPORTS, 'chk_tables', [case],
                            ty='bool * list (str * str * Z) * list str * list str * list str')
        ctx.note_case(('tables', client), nontrivial=True)
        if bad:
            ctx.broke('correspondence:tables', 'handler/percent-expand tables of %s differ from Model/Config.v'
                      % cls.__name__)


# --------------------------------------------------------------------------------------------
# stage: unit functions (tokeniser, patterns, expansion regexes, int(), unsafe-user regex)

LINE_ALPHA = ['a', 'b', 'Port', '22', ' ', ' ', '\t', '"', "'", '\\', '=', '#', 'x y', '""', "''", '\\"', "\\'", '\\\\',
              '%h', '$', '{', '}', '!', ',', '*']


def stage_units(ctx):
    rng = ctx.rng
    thorough = ctx.tier == 'thorough'
    # shlex
    lines = set(MALFORMED)
    for _ in range(4000 if thorough else 1200):
        lines.add(''.join(rng.choice(LINE_ALPHA) for _ in range(rng.randint(0, 8))))
    for n in range(0, 4 if thorough else 3):
        for t in itertools.product(['a', ' ', '"', "'", '\\', '='], repeat=n):
            lines.add(''.join(t))
    cases = []
    nerr = 0
    for ln in sorted(lines):
        try:
            got = shlex.split(ln)
        except ValueError:
            got = None
            nerr += 1
        cases.append('(%s, %s)' % (zs(ln), copt(got, lambda g: clist(g, zs))))
        ctx.note_case(('shlex', ln), nontrivial=('"' in ln or "'" in ln or '\\' in ln))
    ctx.count('shlex.lines', len(cases))
    ctx.count('shlex.errors', nerr)
    bad = ctx.coq_cases('shlex', IMPORTS, 'chk_shlex', cases, ty='str * option (list str)', shard=1500)
    if bad:
        ctx.broke('correspondence:shlex', f'{len(bad)} differ; first: {sorted(lines)[bad[0]]!r}')
    # wildcard pattern lists
    from asyncssh.pattern import WildcardPatternList
    cases = []
    pats = set(HOST_PATS + USER_PATS)
    for _ in range(1500 if thorough else 400):
        pats.add(''.join(rng.choice(['a', 'b', '*', '?', '!', ',', '.', '[', ']', 'A']) for _ in range(rng.randint(0, 6))))
    vals = HOSTS + USERS + ['', 'a', 'ab', 'b', 'a.b', 'A', '[', ']', 'a,b', '!a', 'aab', 'abab']
    keep = []
    for p in sorted(pats):
        for v in (vals if len(p) < 5 else rng.sample(vals, 6)):
            got = bool(WildcardPatternList(p).matches(v))
            keep.append((p, v, got))
            cases.append('(%s, %s, %s)' % (zs(p), zs(v), cbool(got)))
            ctx.note_case(('pat', p, v), nontrivial=('*' in p or '?' in p or '!' in p))
    ctx.count('patlist.cases', len(cases))
    ctx.count('patlist.matched', sum(1 for k in keep if k[2]))
    bad = ctx.coq_cases('patlist', IMPORTS, 'chk_patlist', cases, ty='str * str * bool', shard=3000)
    if bad:
        ctx.broke('correspondence:patlist', f'{len(bad)} differ; first: {keep[bad[0]]!r}')
    # _expand_val (private method; skipped gracefully when absent)
    from asyncssh.config import SSHClientConfig, ConfigParseError
    cfg = SSHClientConfig.load(None, [], False, False, False, 'luser', (), 'host', ())
    if hasattr(cfg, '_expand_val') and hasattr(cfg, '_tokens'):
        toks = {'%': '%', 'h': 'HOST', 'u': 'a%hb', 'r': '${C18_A}', 'p': '22', 'e': '', 'x': '%'}
        env = dict(ENV_VARS)
        env['HOME'] = os.environ.get('HOME', '/nohome')
        saved = {k: os.environ.get(k) for k in list(env) + ['C18_MISSING']}
        os.environ.update(env)
        os.environ.pop('C18_MISSING', None)
        try:
            cfg._tokens = dict(toks)
            strs = set(TOKEN_VALS + BAD_TOKEN_VALS + WORDS)
            alpha = ['%', '%', 'h', 'u', 'r', 'x', 'e', '$', '{', '}', 'C18_A', 'C18_REF', 'C18_MISSING', '\n', 'z', '/']
            for _ in range(5000 if thorough else 1500):
                strs.add(''.join(rng.choice(alpha) for _ in range(rng.randint(0, 7))))
            cases = []
            keep = []
            for s in sorted(strs):
                try:
                    got = cfg._expand_val(s)
                except ConfigParseError:
                    got = None
                keep.append(s)
                cases.append('(%s, %s, %s, %s)' % (
                    clist(sorted(toks.items()), lambda kv: '(%d, %s)' % (ord(kv[0]), zs(kv[1]))),
                    clist(sorted(env.items()), lambda kv: '(%s, %s)' % (zs(kv[0]), zs(kv[1]))), zs(s), copt(got, zs)))
                ctx.note_case(('expand', s), nontrivial=('%' in s or '${' in s))
            ctx.count('expand.cases', len(cases))
            bad = ctx.coq_cases('expand_val', IMPORTS, 'chk_expand', cases,
                                ty='list (Z * str) * list (str * str) * str * option str', shard=2000)
            if bad:
                ctx.broke('correspondence:expand_val', f'{len(bad)} differ; first: {keep[bad[0]]!r}')
        finally:
            for k, v in saved.items():
                if v is None:
                    os.environ.pop(k, None)
                else:
                    os.environ[k] = v
    else:
        ctx.cov['correspondence']['expand_val'] = {'unavailable': True}
    # int()
    ints = ['22', '-1', '+7', '1_0', '007', 'x', '', ' 5', '5 ', '\t5', '1__0', '_1', '1_', '0x10', '- 5', '+-5', '1 0',
            '12345678901234567890', '-0', '+', '-', '1_2_3', '٣']
    cases = []
    for s in ints:
        if any(ord(c) > 127 for c in s):
            continue
        try:
            got = int(s)
        except ValueError:
            got = None
        cases.append('(%s, %s)' % (zs(s), copt(got, cz)))
        ctx.note_case(('int', s), nontrivial=True)
    bad = ctx.coq_cases('int', IMPORTS, 'chk_int', cases, ty='str * option Z')
    if bad:
        ctx.broke('correspondence:int', f'{len(bad)} differ; first: {cases[bad[0]]}')


# --------------------------------------------------------------------------------------------
# stage: whole client / server configs

def client_case(w, prog, host, user, port, canonical, final, lhost, uid, base=None, checker_env_quirks='impl_quirks'):
    fs = w.listing(prog['dirs'] + [prog['dir']])
    E = cenv(True, canonical, final, 'luser', host, '', '', '', '', lhost, w.home, uid, w.environ(), fs,
             quirks=checker_env_quirks)
    return E, fs


def stage_client_configs(ctx, w):
    rng = ctx.rng
    n = 2500 if ctx.tier == 'thorough' else 420
    lhost = socket.gethostname()
    uid = str(os.getuid()) if hasattr(os, 'getuid') else None
    cases, keep = [], []
    stats = {'ok': 0, 'EParse': 0, 'ECrash': 0, 'EFuel': 0, 'EUser': 0}
    feats = {'include_hit': 0, 'match_line': 0, 'host_line': 0, 'first_wins_conflict': 0, 'list_accum': 0,
             'final_seen': 0, 'pct': 0, 'env': 0, 'eq_spelling': 0, 'quoted': 0}
    for i in range(n):
        nmain = 1 if rng.random() < 0.85 else 2
        prog = gen_program(rng, w, True, nmain=nmain, include_prob=0.12 if rng.random() < 0.7 else 0.0,
                           bad=0.04 if rng.random() < 0.5 else 0.0)
        host, user, port = gen_target(rng)
        canonical = rng.random() < 0.25
        final = rng.random() < 0.25
        res, cfg = load_client(prog['main'], host, user, port, canonical, final)
        E, fs = client_case(w, prog, host, user, port, canonical, final, lhost, uid)
        case = '(%s, [], %s, %s, %s, %s)' % (E, copt(None if user == () else user, zs),
                                            copt(None if port == () else port, cz), clist(prog['main'], zs), cresult(res))
        cases.append(case)
        keep.append((prog, host, user, port, canonical, final, res))
        text = '\n'.join(prog['files'][p] for p in prog['main'])
        alltext = '\n'.join(prog['files'].values())
        low = alltext.lower()
        stats['ok' if res[0] == 'ok' else res[1]] += 1
        if res[0] == 'ok':
            if re.search(r'^\s*include', text, re.I | re.M):
                feats['include_hit'] += 1
            feats['match_line'] += bool(re.search(r'^\s*match', low, re.M))
            feats['host_line'] += bool(re.search(r'^\s*host[ =\t]', low, re.M))
            for name in ('port', 'user', 'compression', 'tag'):
                if len(re.findall(r'^\s*%s[ =\t]' % name, low, re.M)) >= 2:
                    feats['first_wins_conflict'] += 1
                    break
            if any(isinstance(v, list) and len(v) >= 2 for v in res[1].values()):
                feats['list_accum'] += 1
            feats['final_seen'] += bool(res[2])
            feats['pct'] += '%' in alltext
            feats['env'] += '${' in alltext
            feats['eq_spelling'] += bool(re.search(r'^\s*\w+\s*=', alltext, re.M))
            feats['quoted'] += ('"' in alltext or "'" in alltext)
        ctx.note_case(('client', tuple(sorted(prog['files'].values())), host, user, port, canonical, final),
                      nontrivial=(res[0] == 'ok' and len(res[1]) >= 2))
        if i < 2:
            ctx.sample({'client_config': {'main': prog['files'][prog['main'][0]], 'host': host, 'user': repr(user),
                                          'port': repr(port), 'result': canon_result(res)}})
        if i % 50 == 49:
            # keep the scratch tree small
            pass
    for k, v in stats.items():
        ctx.count('client.' + k, v)
    for k, v in feats.items():
        ctx.count('client.feature.' + k, v)
    bad = ctx.coq_cases('client_load', IMPORTS, 'chk_load', cases,
                        ty='env * opts * option str * option Z * list str * res (opts * bool)', shard=60)
    if bad:
        prog, host, user, port, canonical, final, res = keep[bad[0]]
        for b in bad[:4]:
            ctx.log('case %d impl=%r model says: %s' % (b, canon_result(keep[b][-1]), explain(
                ctx, 'explain_load (%s)' % cases[b])))
        ctx.broke('correspondence:client_load',
                  f'{len(bad)} of {len(cases)} differ; first: host={host!r} user={user!r} port={port!r} '
                  f'canonical={canonical} final={final} files={prog["files"]!r} impl={canon_result(res)!r}')
    need = n // 40
    for k in ('include_hit', 'match_line', 'host_line', 'first_wins_conflict', 'list_accum', 'final_seen', 'pct', 'env',
              'eq_spelling', 'quoted'):
        if feats[k] < need:
            ctx.broke('vacuity:client.' + k, f'only {feats[k]} successful cases exercised {k} (need {need})')
    if stats['ok'] < n // 3 or stats['EParse'] < n // 50:
        ctx.broke('vacuity:client.outcomes', repr(stats))
    return keep


def stage_server_configs(ctx, w):
    rng = ctx.rng
    n = 1200 if ctx.tier == 'thorough' else 220
    cases, keep = [], []
    stats = {'ok': 0, 'EParse': 0, 'ECrash': 0, 'EFuel': 0, 'EUser': 0}
    users = ['alice', 'bob', 'root', '..', '~x', 'a/b', 'c:', '${C18_A}', 'a%ub', '.', '', 'x\\y', '{C18_A}', 'al ice']
    for i in range(n):
        prog = gen_program(rng, w, False, nmain=1 if rng.random() < 0.85 else 2,
                           include_prob=0.12 if rng.random() < 0.6 else 0.0, bad=0.04 if rng.random() < 0.5 else 0.0)
        user = rng.choice(users)
        host = rng.choice([None, 'host', 'web1.example.com', ''])
        addr = rng.choice(['10.0.0.5', '1.2.3.4'])
        lport = rng.choice([22, 2222])
        canonical = rng.random() < 0.2
        final = rng.random() < 0.2
        res, cfg = load_server(prog['main'], user, host, addr, '5.6.7.8', lport, canonical, final)
        fs = w.listing(prog['dirs'] + [prog['dir']])
        E = cenv(False, canonical, final, '', host or addr, user, addr, '5.6.7.8', str(lport), socket.gethostname(),
                 w.home, None, w.environ(), fs)
        cases.append('(%s, [], None, None, %s, %s)' % (E, clist(prog['main'], zs), cresult(res)))
        keep.append((prog, user, host, addr, lport, canonical, final, res))
        stats['ok' if res[0] == 'ok' else res[1]] += 1
        ctx.note_case(('server', tuple(sorted(prog['files'].values())), user, host, addr, lport, canonical, final),
                      nontrivial=(res[0] == 'ok' and len(res[1]) >= 1))
        if i < 1:
            ctx.sample({'server_config': {'main': prog['files'][prog['main'][0]], 'user': user, 'host': host,
                                          'result': canon_result(res)}})
    for k, v in stats.items():
        ctx.count('server.' + k, v)
    bad = ctx.coq_cases('server_load', IMPORTS, 'chk_load', cases,
                        ty='env * opts * option str * option Z * list str * res (opts * bool)', shard=60)
    if bad:
        prog, user, host, addr, lport, canonical, final, res = keep[bad[0]]
        for b in bad[:4]:
            ctx.log('case %d impl=%r model says: %s' % (b, canon_result(keep[b][-1]), explain(
                ctx, 'explain_load (%s)' % cases[b])))
        ctx.broke('correspondence:server_load',
                  f'{len(bad)} of {len(cases)} differ; first: user={user!r} host={host!r} addr={addr!r} lport={lport} '
                  f'canonical={canonical} final={final} files={prog["files"]!r} impl={canon_result(res)!r}')
    if stats['ok'] < n // 4 or stats['EUser'] < n // 20:
        ctx.broke('vacuity:server.outcomes', repr(stats))
    return keep



# --------------------------------------------------------------------------------------------
# stage: first pass + final pass through the public options object (connection.py _connect)

class _Stop(Exception):
    pass


class _RecTunnel:
    """public tunnel= hook of asyncssh.connect(): records the (host, port) the connection is finally made to; the
    connection object built by the session factory gives the options in force (private attribute, optional)"""

    def __init__(self):
        self.target = None
        self.result = None
        self.username = None

    async def create_connection(self, session_factory, host, port):
        self.target = (host, port)
        try:
            conn = session_factory()
            o = getattr(conn, '_options', None)
            cfg = getattr(o, 'config', None)
            if cfg is not None:
                self.result = ('ok', observe(cfg, True), bool(cfg.has_match_final()))
                self.username = getattr(o, 'username', None)
        except Exception:  # noqa
            self.result = None
        raise _Stop()


def connect_resolve(paths, host, user=(), port=()):
    """Resolve a target the way asyncssh.connect() does (first pass, canonicalisation, final pass in _connect).
    Returns dict(target=(host, port) | None, result=('ok', options, has_final) | ('err', class) | None, username)."""
    import asyncio
    import asyncssh
    t = _RecTunnel()
    kw = {}
    if user != ():
        kw['username'] = user
    if port != ():
        kw['port'] = port

    async def go():
        try:
            await asyncssh.connect(host, config=list(paths), tunnel=t, known_hosts=None, client_keys=None, **kw)
        except _Stop:
            return None
        except Exception as e:  # noqa
            return ('err', classify(e))
        return ('err', 'ECrash')
    err = asyncio.run(go())
    if err is not None and t.target is None:
        return {'target': None, 'result': err, 'username': None}
    return {'target': t.target, 'result': t.result, 'username': t.username}


def alias_program(rng, w, host, fallback_user=False):
    """the shape on which the target of the final pass matters: a block keyed on the name the caller gave rewrites
    Hostname and sets options; "Match final" makes the second pass happen; "Host *" holds fallbacks"""
    d, rel = w.case_dir()
    real = rng.choice(['real.example.com', '10.9.9.9', 'box.internal'])
    lines = [spell(rng, 'Host') + ' ' + host, '  Hostname ' + real, '  Port %d' % rng.choice([4321, 2200, 7])]
    if rng.random() < 0.5:
        lines.append('  SendEnv ALIAS')
    if rng.random() < 0.5:
        lines += ['Match originalhost ' + host, '  BindAddress 10.1.1.1']
    lines += [rng.choice(['Match final', 'Match final all', 'Match final host ' + real]), '  User alice']
    lines += ['Host *', '  Port 99', '  Compression yes']
    if fallback_user:
        lines.append('  Tag fallback')
    p = os.path.join(d, 'main0')
    text = '\n'.join(lines) + '\n'
    w.write(p, text)
    return {'main': [p], 'files': {p: text}, 'dirs': [], 'dir': d}


TWO_PASS_OPTS = ['User', 'Port', 'Hostname', 'Compression', 'SendEnv', 'Tag', 'TCPKeepAlive', 'BindAddress']


TWO_PASS_VALUES = {'User': ['alice', 'bob', 'carol'], 'Tag': ['a', 'b1', 'x.y'], 'BindAddress': ['10.1.1.1', '10.2.2.2'],
                   'SendEnv': ['LANG', 'FOO', 'LC_*'], 'Port': ['22', '2200', '7'], 'Compression': ['yes', 'no'],
                   'TCPKeepAlive': ['yes', 'no']}


def restricted_program(rng, w, names, n_lines, client=True, with_include=False, values=None):
    """small valid program over a few harmless options; returns dict like gen_program"""
    d, rel = w.case_dir()
    ks = kinds(client)
    files = {}

    def opt():
        name = rng.choice(names)
        if values and name in values:
            vals = [rng.choice(values[name])]
        else:
            vals = gen_value(rng, name, ks[name], tokens_ok=(name == 'Hostname'), bad=0.0)
        if name == 'Hostname':
            vals = [rng.choice(['%h', '%h.example.com', 'gw-%h', 'real.example.com', 'db'])]
        return spell(rng, name) + delim(rng) + ' '.join(quote(rng, v) for v in vals)

    lines = []
    for _ in range(n_lines):
        r = rng.random()
        if r < 0.3:
            lines.append(host_line(rng) if client and rng.random() < 0.4 else match_line(rng, client))
        else:
            lines.append(opt())
    p = os.path.join(d, 'main0')
    files[p] = '\n'.join(lines) + '\n'
    for q, t in files.items():
        w.write(q, t)
    return {'main': [p], 'files': files, 'dirs': [], 'dir': d}


def stage_two_pass(ctx, w):
    import asyncssh
    rng = ctx.rng
    n = 400 if ctx.tier == 'thorough' else 80
    lhost = socket.gethostname()
    uid = str(os.getuid()) if hasattr(os, 'getuid') else None
    try:
        luser = getpass.getuser()
    except Exception:  # noqa
        ctx.cov['correspondence']['two_pass'] = {'unavailable': 'no local user name'}
        return
    cases, keep, tcases = [], [], []
    second = private_missing = 0
    for i in range(n):
        host = rng.choice(HOSTS)
        if i % 4 == 3:
            prog = alias_program(rng, w, host, fallback_user=True)
        else:
            prog = restricted_program(rng, w, TWO_PASS_OPTS, rng.randint(2, 9), values=TWO_PASS_VALUES)
            # make "Match final" frequent
            if rng.random() < 0.6:
                t = prog['files'][prog['main'][0]]
                t += rng.choice(['Match final\n', 'Match final host *\n', 'Match !final\n', 'match FINAL all\n']) + \
                    rng.choice(['Port 4444\n', 'Compression yes\n', 'SendEnv FIN\n', 'User fin\n'])
                prog['files'][prog['main'][0]] = t
                w.write(prog['main'][0], t)
        user = rng.choice([(), (), 'alice'])
        port = rng.choice([(), (), 2222])
        cr = connect_resolve(prog['main'], host, user, port)
        res = cr['result']
        if res is None:
            # the options of the connection are not reachable any more: fall back to the options object
            private_missing += 1
            try:
                kw = {}
                if user != ():
                    kw['username'] = user
                if port != ():
                    kw['port'] = port
                o = asyncssh.SSHClientConnectionOptions(host=host, config=prog['main'], **kw)
                cfg = o.config
                if cfg.has_match_final():
                    o.update(host=host, reload=True, canonical=False, final=True)
                    cfg = o.config
                res = ('ok', observe(cfg, True), bool(cfg.has_match_final()))
            except Exception as e:  # noqa
                res = ('err', classify(e))
        second += bool(res[0] == 'ok' and res[2])
        fs = w.listing([prog['dir']])
        E = cenv(True, False, False, luser, host, '', '', '', '', lhost, w.home, uid, w.environ(), fs)
        cases.append('(%s, [], %s, %s, %s, %s)' % (E, copt(None if user == () else user, zs),
                                                   copt(None if port == () else port, cz),
                                                   clist(prog['main'], zs), cresult(res)))
        keep.append((prog, host, user, port, res))
        tcases.append('(%s, %s, %s, %s, %s)' % (E, copt(None if user == () else user, zs), copt(None if port == () else port, cz),
                                                clist(prog['main'], zs),
                                                copt(cr['target'], lambda hp: '(%s, %s)' % (zs(hp[0]), cz(hp[1])))))
        ctx.note_case(('two_pass', prog['files'][prog['main'][0]], host, user, port), nontrivial=res[0] == 'ok')
    ctx.count('two_pass.second_pass_taken', second)
    if private_missing:
        ctx.cov['correspondence']['two_pass_options_via_connect'] = {'unavailable_cases': private_missing}
    bad = ctx.coq_cases('connect_target', IMPORTS, 'chk_connect_target', tcases,
                        ty='env * option str * option Z * list str * option (str * Z)', shard=60)
    if bad:
        prog, host, user, port, res = keep[bad[0]]
        ctx.broke('correspondence:connect_target', f'{len(bad)} of {len(tcases)} differ; first: host={host!r} user={user!r} '
                  f'port={port!r} files={prog["files"]!r}')
    bad = ctx.coq_cases('two_pass', IMPORTS, 'chk_two_pass', cases,
                        ty='env * opts * option str * option Z * list str * res (opts * bool)', shard=60)
    if bad:
        prog, host, user, port, res = keep[bad[0]]
        ctx.broke('correspondence:two_pass', f'{len(bad)} of {len(cases)} differ; first: host={host!r} user={user!r} '
                  f'port={port!r} files={prog["files"]!r} impl={canon_result(res)!r}')
    if second < n // 5:
        ctx.broke('vacuity:two_pass', f'only {second} cases took the final pass')


# --------------------------------------------------------------------------------------------
# stage: user names over a metacharacter alphabet through the real SSHServerConfig

USER_ALPHA = ['.', '~', '/', '\\', '$', '{', '}', ':', 'a', 'C', '\n', '%', 'u']
USER_TEMPLATES = ['/keys/%u/ak', '%u', '.ssh/%u', 'xx%uy/z']


def user_oracle(user, templates, got):
    """the property on the implementation's own answer: None if fine, else a description"""
    for t, p in zip(templates, got):
        want = t.replace('%u', user)
        if p != want:
            return f'template {t!r} resolved to {p!r}, not to the literal substitution {want!r}'
        ref = t.replace('%u', 'x')
        if len(p.split('/')) != len(ref.split('/')):
            return f'template {t!r} resolved to {p!r}: number of path components changed'
        if '..' in p.split('/') and '..' not in ref.split('/'):
            return f'template {t!r} resolved to {p!r}: a ".." component appeared'
        if p.startswith('~') and not ref.startswith('~'):
            return f'template {t!r} resolved to {p!r}: leading "~"'
        if re.match(r'[A-Za-z]:', p) and not re.match(r'[A-Za-z]:', ref):
            return f'template {t!r} resolved to {p!r}: drive prefix'
        if '\\' in p and '\\' not in ref:
            return f'template {t!r} resolved to {p!r}: backslash separator'
        if re.search(r'\$\{[^\n]*?\}', p) and not re.search(r'\$\{[^\n]*?\}', ref):
            return f'template {t!r} resolved to {p!r}: environment reference'
    return None


def stage_users(ctx, w):
    rng = ctx.rng
    maxlen = 4 if ctx.tier == 'thorough' else 3
    users = ['']
    for n in range(1, maxlen + 1):
        users += [''.join(t) for t in itertools.product(USER_ALPHA, repeat=n)]
    for _ in range(6000 if ctx.tier == 'thorough' else 1500):
        users.append(''.join(rng.choice(USER_ALPHA + ['a', 'b', '${C18_A}', '..', 'c:']) for _ in range(rng.randint(4, 9))))
    users += ['alice', '..', '../x', '~root', 'C:', 'c:x', '${HOME}', '${C18_A}', 'a${C18_A}b', '$HOME', '{C18_A}', '.',
              '...', '. .', '..\n', '\n..', '${C18\n_A}', '${}', 'a\\b', '%u', '%%', '%h']
    users = sorted(set(users))
    d, rel = w.case_dir()
    path = os.path.join(d, 'sshd_config')
    w.write(path, 'AuthorizedKeysFile ' + ' '.join(USER_TEMPLATES) + '\n')
    cases = []
    acc = rej = 0
    dot_or_empty = 0
    for u in users:
        res, cfg = load_server([path], u, 'h', '1.2.3.4')
        if res[0] == 'ok':
            got = res[1].get('AuthorizedKeysFile')
            acc += 1
            if u in ('', '.'):
                dot_or_empty += 1
            why = user_oracle(u, USER_TEMPLATES, got) if isinstance(got, list) and len(got) == len(USER_TEMPLATES) \
                else f'AuthorizedKeysFile resolved to {got!r}'
            if why:
                report(ctx, 'unsafe_user', f'server config accepted user name {u!r}: {why}',
                       {'kind': 'unsafe_user', 'user': u, 'templates': USER_TEMPLATES, 'resolved': got})
        else:
            got = None
            rej += res[1] == 'EUser'
            ctx.count('users.error.' + res[1])
            if res[1] != 'EUser':
                # the templates contain no '$': an expansion error can only come from the user name's own text
                report(ctx, 'unsafe_user', f'server config for user name {u!r} failed with {res[1]} instead of '
                       f'IllegalUserName: the name was not refused and its text reached expansion',
                       {'kind': 'unsafe_user', 'user': u, 'templates': USER_TEMPLATES, 'resolved': res[1]})
        cases.append('(%s, %s, %s)' % (zs(u), clist(USER_TEMPLATES, zs),
                                       '(Ok %s)' % clist(got, zs) if got is not None else '(Err %s)' % res[1]))
        ctx.note_case(('user', u), nontrivial=any(c in u for c in './\\~$:'))
    ctx.count('users.accepted', acc)
    ctx.count('users.rejected', rej)
    ctx.cov['oracle']['user_names_enumerated'] = len(users)
    ctx.cov['oracle']['user_alphabet'] = USER_ALPHA
    ctx.cov['oracle']['user_exhaustive_to_length'] = maxlen
    ctx.cov['oracle']['observation_dot_or_empty_user_accepted'] = dot_or_empty
    ctx.sample({'users': {'templates': USER_TEMPLATES, 'accepted_example': 'a%u', 'rejected_example': '${C}'}})
    bad = ctx.coq_cases('user_load', IMPORTS, 'chk_user_load', cases, ty='str * list str * res (list str)', shard=1500)
    if bad:
        ctx.broke('correspondence:user_load', f'{len(bad)} differ; first user: {users[bad[0]]!r}')
    if acc < 50 or rej < 50:
        ctx.broke('vacuity:users', f'accepted={acc} rejected={rej}')


# --------------------------------------------------------------------------------------------
# direct oracles on the implementation alone

def _glob_sorted(w, pattern):
    """the regular files an Include argument selects, in the order ssh (glob(3)) reads them"""
    import glob as globmod
    if pattern.startswith('~/'):
        pattern = w.home + pattern[1:]
    elif not pattern.startswith('/'):
        pattern = os.path.join(w.home, '.ssh', pattern)
    return [p for p in sorted(globmod.glob(pattern)) if os.path.isfile(p)]


def _glob_pathsorted(w, pattern):
    """sorted() over Path objects (component lists compared), what the code does since d9a79c3"""
    return [str(q) for q in sorted(__import__('pathlib').Path(x) for x in _glob_dirorder(w, pattern))]


def _glob_dirorder(w, pattern):
    from pathlib import Path
    if pattern.startswith('~/'):
        pattern = w.home + pattern[1:]
    elif not pattern.startswith('/'):
        pattern = os.path.join(w.home, '.ssh', pattern)
    return [str(p) for p in Path('/').glob(pattern[1:]) if p.is_file()]


def inline_text(w, text, globber, depth=0):
    """replace every Include line of a text whose lines are all in a matching context by the files it selects"""
    out = []
    for line in text.split('\n'):
        m = re.match(r'^\s*include[ \t=]+(.*)$', line, re.I)
        if m and depth < 4:
            for pat in shlex.split(m.group(1)):
                for f in globber(w, pat):
                    out.append('Match all')
                    out.append(inline_text(w, open(f).read(), globber, depth + 1))
            out.append('Match all')
        else:
            out.append(line)
    return '\n'.join(out)


def gen_inline_program(rng, w, client, flavour):
    """main file without Host/Match lines (every line is in a matching context); included files may contain
    blocks; includes inside included files only at their top."""
    d, rel = w.case_dir()
    sshdir = os.path.join(w.home, '.ssh', rel)
    files = {}
    names = ['50-m.conf', 'b.conf', 'z.conf', 'a.conf', 'k.conf', '10-q.conf', 'Z.conf', 'c.conf']
    rng.shuffle(names)
    ks = kinds(client)
    if client:
        pool = ['Port', 'User', 'Compression', 'SendEnv', 'Tag', 'ConnectTimeout', 'BindAddress', 'Hostname']
        pct_pool = ['IdentityFile', 'CertificateFile', 'IdentityAgent', 'RemoteCommand']
    else:
        pool = ['PermitTTY', 'Port', 'HostKey', 'LoginGraceTime', 'Compression', 'BindAddress']
        pct_pool = ['AuthorizedKeysFile']

    def opt(tok):
        if tok and rng.random() < 0.5:
            name = rng.choice(pct_pool)
            v = rng.choice(['id_%%h', '%%d/x', 'a%%%%b', '%%', 'k_%h' if client else 'k_%u', '%%u', 'plain', '%%h.%%p'])
            return name + ' ' + v
        name = rng.choice(pool)
        if name == 'Hostname':
            return 'Hostname ' + rng.choice(['%h.example.com', 'real.example.com', '%%h'])
        vals = gen_value(rng, name, ks[name], tokens_ok=False, bad=0.0)
        return name + ' ' + ' '.join(quote(rng, v) for v in vals)

    tok = flavour == 'expansion'
    nfiles = 1 if flavour == 'expansion' else rng.randint(2, 6)
    confd = os.path.join(sshdir, 'conf.d')
    if flavour == 'order2':
        # a wildcard directory level where one name is a prefix of another: "conf" / "conf.d" / "conf-x"
        files = {}
        for k, dn in enumerate(rng.sample(['conf', 'conf.d', 'conf-x', 'conf+', 'confz'], rng.randint(2, 4))):
            files[os.path.join(sshdir, dn, 'x.cfg')] = ('Port %d\nSendEnv D%d\n' % (4000 + k, k)) if client else \
                ('Port %d\nHostKey hk%d\n' % (4000 + k, k))
        p = os.path.join(d, 'main0')
        files[p] = 'Include ' + rng.choice([rel + '/*/x.cfg', '~/.ssh/' + rel + '/conf*/x.cfg', sshdir + '/*/x.cfg']) + '\n' + opt(False) + '\n'
        for q, t in files.items():
            w.write(q, t)
        return {'main': [p], 'files': files, 'dirs': [sshdir], 'dir': d}
    for nme in names[:nfiles]:
        lines = []
        for _ in range(rng.randint(1, 4)):
            r = rng.random()
            if r < 0.2:
                lines.append(host_line(rng) if client else match_line(rng, client))
            else:
                lines.append(opt(tok))
        files[os.path.join(confd, nme)] = '\n'.join(lines) + '\n'
    main = []
    for _ in range(rng.randint(0, 2)):
        main.append(opt(tok))
    main.append('Include ' + rng.choice([rel + '/conf.d/*.conf', '~/.ssh/' + rel + '/conf.d/*', confd + '/*.conf']))
    for _ in range(rng.randint(0, 3)):
        main.append(opt(tok))
    p = os.path.join(d, 'main0')
    files[p] = '\n'.join(main) + '\n'
    for q, t in files.items():
        w.write(q, t)
    return {'main': [p], 'files': files, 'dirs': [sshdir], 'dir': d}


def rel_files(w, files):
    return {p.replace(w.root, '@ROOT@'): t.replace(w.root, '@ROOT@') for p, t in files.items()}


def stage_include_oracle(ctx, w):
    """included files are read in place: the same program with every Include replaced by the text of the files
    it selects (in the order ssh reads them) must resolve identically."""
    rng = ctx.rng
    n = 300 if ctx.tier == 'thorough' else 70
    stats = {'same': 0, 'differ': 0}
    for i in range(n):
        client = rng.random() < 0.75
        flavour = ['expansion', 'order', 'expansion', 'order', 'order2'][i % 5]
        prog = gen_inline_program(rng, w, client, flavour)
        main = prog['main'][0]
        text = prog['files'][main]
        host, user, port = gen_target(rng)
        suser = rng.choice(['alice', 'bob'])

        def run(paths):
            if client:
                return load_client(paths, host, user, port)[0]
            return load_server(paths, suser, 'h', '1.2.3.4')[0]
        r_inc = run([main])
        inl = os.path.join(prog['dir'], 'inlined')
        w.write(inl, inline_text(w, text, _glob_sorted))
        r_inl = run([inl])
        ctx.note_case(('include_oracle', tuple(sorted(prog['files'].values())), client, host, user, port), nontrivial=True)
        if canon_result(r_inc) == canon_result(r_inl):
            stats['same'] += 1
            continue
        stats['differ'] += 1
        # attribute the difference: does inlining in another order reproduce what the Include line gave?
        cause = 'expansion_per_file'
        for name, globber in (('glob_sort_componentwise', _glob_pathsorted), ('glob_order', _glob_dirorder)):
            alt = os.path.join(prog['dir'], 'inlined_' + name)
            w.write(alt, inline_text(w, text, globber))
            if canon_result(run([alt])) == canon_result(r_inc):
                cause = name
                break
        ctx.count('include_inline_differs.' + cause, group='oracle')
        report(
            ctx, 'include_inline:' + cause,
            f'Include is not read in place ({cause}): with the Include line the program resolves to '
            f'{canon_result(r_inc)!r}, with the selected files written in its place to {canon_result(r_inl)!r}',
            {'kind': 'include_inline', 'class': cause, 'cause': cause, 'client': client, 'files': rel_files(w, prog['files']),
             'main': main.replace(w.root, '@ROOT@'), 'host': host, 'user': None if user == () else user,
             'port': None if port == () else port, 'server_user': suser,
             'with_include': canon_result(r_inc), 'inlined': canon_result(r_inl)})
    for k, v in stats.items():
        ctx.count('include_oracle.' + k, v)
    return stats


def stage_multipath_oracle(ctx, w):
    """a list of config files resolves like their concatenation (each file starting in the matching state)"""
    rng = ctx.rng
    n = 120 if ctx.tier == 'thorough' else 30
    for i in range(n):
        d, rel = w.case_dir()
        texts = []
        for k in range(2):
            lines = []
            for _ in range(rng.randint(1, 4)):
                r = rng.random()
                if r < 0.2:
                    lines.append(host_line(rng))
                elif r < 0.6:
                    lines.append(rng.choice(['IdentityFile', 'CertificateFile']) + ' ' +
                                 rng.choice(['id_%%h', 'a%%%%b', '%%', 'k_%h', 'plain', '%%d']))
                else:
                    lines.append(rng.choice(['Port 22', 'Port 2222', 'User bob', 'SendEnv A', 'Compression yes', 'Tag t']))
            texts.append('\n'.join(lines) + '\n')
        paths = [os.path.join(d, 'c%d' % k) for k in range(2)]
        for p, t in zip(paths, texts):
            w.write(p, t)
        cat = os.path.join(d, 'cat')
        w.write(cat, texts[0] + 'Match all\n' + texts[1])
        host, user, port = gen_target(rng)
        r_list = load_client(paths, host, user, port)[0]
        r_cat = load_client([cat], host, user, port)[0]
        ctx.note_case(('multipath', tuple(texts), host, user, port), nontrivial=True)
        if canon_result(r_list) != canon_result(r_cat):
            ctx.count('multipath_differs', group='oracle')
            report(
                ctx, 'multipath:expansion_per_file',
                f'config files {texts!r} given as a list resolve to {canon_result(r_list)!r} but their concatenation '
                f'resolves to {canon_result(r_cat)!r} (values of the first file are expanded twice)',
                {'kind': 'multipath', 'class': 'expansion_per_file', 'texts': texts, 'host': host, 'user': None if user == () else user,
                 'port': None if port == () else port, 'as_list': canon_result(r_list), 'concatenated': canon_result(r_cat)})


def stage_firstwins_oracle(ctx, w, client_keep):
    """appending 'Match all' + further lines to a resolved program never changes a set-once option and extends a list
    option by exactly the appended value"""
    checked = 0
    for prog, host, user, port, canonical, final, res in client_keep:
        if res[0] != 'ok' or len(prog['main']) != 1:
            continue
        main = prog['main'][0]
        text = prog['files'][main]
        ext = os.path.join(prog['dir'], 'main_fw')
        w.write(ext, text + '\nMatch all\nPort 4242\nUser zed\nCompression no\nSendEnv ZZ9\nUserKnownHostsFile /kh/zz\n')
        r2 = load_client([ext], host, user, port, canonical, final)[0]
        if r2[0] != 'ok':
            problem = f'appending valid lines turned the result into {canon_result(r2)!r}'
        else:
            old, new = res[1], r2[1]
            problem = None
            for name, dflt in (('Port', 4242), ('User', 'zed'), ('Compression', False), ('UserKnownHostsFile', ['/kh/zz'])):
                want = old.get(name, dflt) if name in old else dflt
                if new.get(name, SENT) != want:
                    problem = f'{name}: {old.get(name, "<unset>")!r} before, {new.get(name)!r} after appending a later line'
            if new.get('SendEnv') != old.get('SendEnv', []) + ['ZZ9']:
                problem = f'SendEnv: {old.get("SendEnv")!r} before, {new.get("SendEnv")!r} after appending "SendEnv ZZ9"'
            for name in old:
                if name not in ('Port', 'User', 'Compression', 'SendEnv', 'UserKnownHostsFile') and new.get(name, SENT) != old[name]:
                    # expansion of %p / %r may legitimately change when Port/User get a value
                    if name in ('CertificateFile', 'ForwardAgent', 'IdentityAgent', 'IdentityFile', 'ProxyCommand', 'RemoteCommand'):
                        continue
                    problem = f'{name}: {old[name]!r} before, {new.get(name)!r} after appending unrelated lines'
        checked += 1
        if problem:
            ctx.count('firstwins_differs', group='oracle')
            report(ctx, 'first_wins', f'first-value-wins / list accumulation violated: {problem}; config {text!r}',
                              {'kind': 'first_wins', 'files': rel_files(w, prog['files']), 'main': main.replace(w.root, '@ROOT@'),
                               'host': host, 'user': None if user == () else user, 'port': None if port == () else port,
                               'canonical': canonical, 'final': final, 'problem': problem})
    ctx.count('firstwins_oracle.checked', checked)
    if checked < 20:
        ctx.broke('vacuity:firstwins_oracle', f'only {checked} programs checked')


def stage_final_registered(ctx, w):
    """a "final" keyword anywhere on a Match line requests the final pass (whatever the other criteria of the line
    say in the first pass), and a block "Match host <canonical name> final" applies in that pass"""
    from asyncssh.config import SSHClientConfig
    rng = ctx.rng
    n = 150 if ctx.tier == 'thorough' else 40
    d, rel = w.case_dir()
    for i in range(n):
        host = rng.choice(['web', 'db', 'host'])
        before = [rng.choice(['host web', 'host db', 'user nobody', 'originalhost h*t', '!host *', 'localuser nobody',
                              'host *.example.test', 'all', 'canonical', '!canonical'])
                  for _ in range(rng.randint(1, 2))]
        if 'all' in before:
            before = ['canonical']
        fin = rng.choice(['final', '!final', 'FINAL', 'Final'])
        after = [rng.choice(['host *', 'user *'])] if rng.random() < 0.3 else []
        line = 'Match ' + ' '.join(before + [fin] + after)
        text = rng.choice(['', 'Compression yes\n', 'Host nothing\n']) + line + '\nPort 2202\n'
        q = os.path.join(d, 'f%d' % i)
        w.write(q, text)
        r, cfg = load_client([q], host)
        ctx.note_case(('final_registered', text, host), nontrivial=True)
        if r[0] == 'ok' and not r[2]:
            ctx.count('final_not_registered', group='oracle')
            report(ctx, 'final_registered',
                   f'config {text!r} for host {host!r}: the Match line names "final" but has_match_final() is False, so '
                   f'the final pass would not be requested',
                   {'kind': 'final_registered', 'class': 'final_not_registered', 'text': text, 'host': host})
    # the documented use: the block only matches the canonical name, i.e. in the final pass
    for crit, canon in (('host *.example.test', 'web.example.test'), ('host web.example.test', 'web.example.test'),
                        ('!host web', 'web.example.test')):
        for tail in ('final', 'final user *'):
            text = 'Match %s %s\n  Port 2202\n  BindAddress 10.0.0.2\nMatch host *.example.test\n  Port 2203\n' % (crit, tail)
            q = os.path.join(d, 'c%d' % abs(hash((crit, tail)) % 10 ** 6))
            w.write(q, text)
            try:
                first = SSHClientConfig.load(None, [q], False, False, False, 'luser', (), 'web', ())
                second = SSHClientConfig.load(first, [q], True, True, bool(first.has_match_final()), 'luser', (),
                                              canon, ())
                got = (bool(first.has_match_final()), second.get('Port'), second.get('BindAddress'))
            except Exception as e:  # noqa
                got = ('error', classify(e), None)
            ctx.note_case(('canonical_final_block', text), nontrivial=True)
            if got != (True, 2202, '10.0.0.2'):
                ctx.count('canonical_final_block_differs', group='oracle')
                report(ctx, 'final_registered',
                       f'config {text!r}: resolving "web" and then, as connection.py does after canonicalisation, '
                       f'{canon!r} gives (final pass requested, Port, BindAddress) = {got!r}; ssh applies the block in '
                       f'the final pass: (True, 2202, "10.0.0.2")',
                       {'kind': 'final_registered', 'class': 'final_not_registered', 'text': text, 'host': 'web'})


NONE_REAL = {   # a real (ssh-valid) value per option that accepts the keyword "none"
    'BindAddress': '10.1.1.1', 'CASignatureAlgorithms': 'ssh-ed25519', 'Ciphers': 'aes128-ctr',
    'HostKeyAlgorithms': 'ssh-ed25519', 'HostKeyAlias': 'al', 'IdentityAgent': '/tmp/agent.sock',
    'KexAlgorithms': 'curve25519-sha256', 'MACs': 'hmac-sha2-256', 'PKCS11Provider': '/usr/lib/p11.so',
    'PreferredAuthentications': 'publickey', 'ProxyCommand': 'nc gw 22', 'ProxyJump': 'bastion.example.com',
    'RemoteCommand': 'uptime', 'Tag': 'tg', 'User': 'bob', 'CanonicalDomains': 'example.com',
    'CanonicalizePermittedCNAMEs': '*.a.example.com:*.b.example.com', 'GlobalKnownHostsFile': '/kh/g',
    'SetEnv': 'FOO=bar', 'UserKnownHostsFile': '/kh/u', 'AuthorizedKeysFile': '/keys/ak',
}
NONE_SHAPES = ['same_file', 'host_block', 'match_block', 'include_later', 'include_first', 'second_file']


def none_first_program(w, client, name, shape, none_word, real, target):
    """files in which the first applicable line for `name` says "none" and a later applicable line gives a real
    value; returns (paths with both lines, paths with the "none" line only, all files)"""
    d, rel = w.case_dir()
    first = '%s %s' % (name, none_word)
    later = '%s %s' % (name, real)
    inc = os.path.join(d, 'inc')
    files = {}

    def build(with_later):
        lt = later if with_later else '# removed'
        tag = 'b' if with_later else 'n'
        main = os.path.join(d, 'main_' + tag)
        inc_t = os.path.join(d, 'inc_' + tag)
        second = os.path.join(d, 'second_' + tag)
        paths = [main]
        if shape == 'same_file':
            files[main] = first + '\nCompression yes\n' + lt + '\n'
        elif shape == 'host_block':
            if client:
                files[main] = 'Host %s\n  %s\nHost *\n  %s\n' % (target, first, lt)
            else:
                files[main] = 'Match user %s\n  %s\nMatch all\n  %s\n' % (target, first, lt)
        elif shape == 'match_block':
            files[main] = first + '\nMatch %s *\n  %s\n' % ('host' if client else 'user', lt)
        elif shape == 'include_later':
            files[main] = first + '\nInclude ' + inc_t + '\n'
            files[inc_t] = lt + '\n'
        elif shape == 'include_first':
            files[main] = 'Include ' + inc_t + '\n' + lt + '\n'
            files[inc_t] = first + '\n'
        else:
            files[main] = first + '\n'
            files[second] = lt + '\n'
            paths = [main, second]
        return paths
    both, only = build(True), build(False)
    for q, t in files.items():
        w.write(q, t)
    return both, only, files


def stage_none_first(ctx, w):
    """first value wins also when the first value is the keyword "none": a later applicable line (same file, later
    Host block, Match block, included file, second file of a path list) must not replace it.  Checked on asyncssh
    itself (result = result without the later line, and the option is "none"/empty) and, where ssh accepts the
    option, against ssh -G (which prints the same with and without the later line)."""
    rng = ctx.rng
    have_ssh = os.access(SSH, os.X_OK)
    words = ['none', 'None', 'NONE', 'nOnE']
    checked = ssh_checked = 0
    for client in (True, False):
        ks = kinds(client)
        names = [n for n in option_names(client) if ks[n] in ('KString', 'KStringList') and n in NONE_REAL]
        for name in names:
            shapes = NONE_SHAPES if ctx.tier == 'thorough' else rng.sample(NONE_SHAPES, 3)
            for shape in shapes:
                word = rng.choice(words)
                target = 'internal-1' if client else 'alice'
                both, only, files = none_first_program(w, client, name, shape, word, NONE_REAL[name], target)

                def run(paths):
                    if client:
                        return load_client(paths, target)[0]
                    return load_server(paths, target, 'h', '1.2.3.4')[0]
                r_both, r_only = run(both), run(only)
                checked += 1
                ctx.note_case(('none_first', client, name, shape, word), nontrivial=True)
                problems = []
                want = None if ks[name] == 'KString' else []
                if r_both[0] != 'ok':
                    problems.append(f'load fails with {r_both[1]}')
                else:
                    got = r_both[1].get(name, SENT)
                    if got is SENT or got != want:
                        problems.append(f'{name} resolves to {"<unset>" if got is SENT else repr(got)}, not to '
                                        f'{want!r} (the first value, "{word}")')
                    if canon_result(r_both) != canon_result(r_only):
                        problems.append(f'the later line changes the result: {canon_result(r_only)!r} without it, '
                                        f'{canon_result(r_both)!r} with it')
                ssh_note = ''
                if have_ssh and client and shape != 'second_file':
                    o_both, _ = ssh_G(both[0], target, (), ())
                    o_only, _ = ssh_G(only[0], target, (), ())
                    if o_both is not None and o_only is not None:
                        ssh_checked += 1
                        key = name.lower()
                        if o_both == o_only:
                            ssh_note = f'; ssh -G prints the same with and without the later line ({key} {o_both.get(key, ["<not printed>"])!r})'
                        else:
                            # ssh lets the later line count for this option: no claim against asyncssh from ssh here
                            ctx.count('none_first.ssh_later_line_counts.' + name)
                            if problems and not any('load fails' in x for x in problems):
                                continue
                if problems:
                    ctx.count('none_first_differs', group='oracle')
                    report(ctx, 'none_first',
                           f'first value "none" does not win ({"client" if client else "server"} option {name}, shape {shape}): '
                           + '; '.join(problems) + ssh_note + f'; files {rel_files(w, files)!r}',
                           {'kind': 'none_first', 'class': 'none_first', 'client': client, 'option': name, 'shape': shape,
                            'word': word, 'target': target})
    ctx.count('none_first.checked', checked)
    ctx.count('none_first.checked_against_ssh', ssh_checked)
    if checked < 30:
        ctx.broke('vacuity:none_first', f'only {checked} cases')


def stage_connect_target(ctx, w):
    """what asyncssh.connect() finally targets (host, port handed to the transport; user name and options in force)
    for an alias block + "Match final" program, against what ssh -G resolves for the same file.  The programs are
    built so that the known final-pass differences (C18-4/5) do not touch the compared options."""
    if not os.access(SSH, os.X_OK):
        ctx.cov['oracle']['connect_target'] = 'unavailable (no ssh)'
        return
    rng = ctx.rng
    n = 120 if ctx.tier == 'thorough' else 24
    agree = 0
    for i in range(n):
        host = rng.choice(SSH_HOSTS)
        prog = alias_program(rng, w, host)
        main = prog['main'][0]
        out, err = ssh_G(main, host, (), ())
        if out is None:
            ctx.broke('harness:connect_target', 'ssh rejects an alias program: ' + err)
            return
        cr = connect_resolve([main], host)
        ctx.note_case(('connect_target', prog['files'][main], host), nontrivial=True)
        want = (out.get('hostname', ['?'])[0], int(out.get('port', ['0'])[0]))
        problems = []
        if cr['target'] != want:
            problems.append(f'connects to {cr["target"]!r}, ssh to {want!r}')
        if cr['username'] is not None and cr['username'] != out.get('user', ['?'])[0]:
            problems.append(f'user {cr["username"]!r}, ssh {out.get("user")!r}')
        if cr['result'] is not None and cr['result'][0] == 'ok':
            for name, key in (('SendEnv', 'sendenv'), ('BindAddress', 'bindaddress')):
                mine = cr['result'][1].get(name)
                theirs = out.get(key, [])
                mine = [] if mine is None else (dedupe(mine) if isinstance(mine, list) else [mine])
                if mine != dedupe(theirs):
                    problems.append(f'{name} {mine!r}, ssh {theirs!r}')
        if not problems:
            agree += 1
            continue
        ctx.count('connect_target_differs', group='oracle')
        report(ctx, 'connect_target',
               f'asyncssh.connect({host!r}, config=...) after the final pass: ' + '; '.join(problems) +
               f'; config {prog["files"][main]!r}',
               {'kind': 'connect_target', 'class': 'connect_target', 'text': prog['files'][main], 'host': host,
                'problems': problems})
    ctx.count('connect_target.agree', agree)
    if agree + ctx.cov['oracle'].get('connect_target_differs', 0) < n:
        ctx.broke('vacuity:connect_target', 'not every alias program was compared')


def stage_purity_oracle(ctx, w):
    """loading a config on top of another one (last_config) must not change the earlier one, and loading it twice must
    give the same answer"""
    rng = ctx.rng
    n = 60 if ctx.tier == 'thorough' else 20
    for i in range(n):
        d, rel = w.case_dir()
        a = os.path.join(d, 'parent')
        b = os.path.join(d, 'child')
        ta = ''.join(rng.choice(['SendEnv A\n', 'SendEnv B C\n', 'IdentityFile ida\n', 'Port 22\n', 'User u1\n',
                                 'CertificateFile ca\n']) for _ in range(rng.randint(1, 4)))
        tb = ''.join(rng.choice(['SendEnv X\n', 'IdentityFile idb\n', 'Port 23\n', 'CertificateFile cb\n', 'SendEnv Y Z\n'])
                     for _ in range(rng.randint(1, 4)))
        w.write(a, ta)
        w.write(b, tb)
        host = rng.choice(HOSTS)
        rp, parent = load_client([a], host)
        if rp[0] != 'ok':
            continue
        before = canon_result(rp)
        r1, _ = load_client([b], host, last=parent)
        after = canon_result(('ok', observe(parent, True), bool(parent.has_match_final())))
        r2, _ = load_client([b], host, last=parent)
        ctx.note_case(('purity', ta, tb, host), nontrivial=True)
        problem = None
        changed = []
        if before != after:
            problem = f'parent config changed from {before!r} to {after!r} when a child config was loaded on top of it'
            changed = sorted(k for k in set(before[1]) | set(after[1]) if before[1].get(k) != after[1].get(k))
        elif canon_result(r1) != canon_result(r2):
            problem = f'the same child config resolved to {canon_result(r1)!r} and then to {canon_result(r2)!r}'
            a1, a2 = canon_result(r1), canon_result(r2)
            changed = sorted(k for k in set(a1[1]) | set(a2[1]) if a1[1].get(k) != a2[1].get(k)) \
                if a1[0] == a2[0] == 'ok' else ['<error>']
        if problem:
            ks = kinds(True)
            cls = 'list_aliasing' if changed and all(ks.get(k) in ('KAppendString', 'KAppendStringList') for k in changed) \
                else 'other'
            ctx.count('purity_differs.' + cls, group='oracle')
            report(ctx, 'purity:' + cls, f'options leak between config objects ({cls}): {problem}; parent {ta!r} child {tb!r}',
                   {'kind': 'purity', 'class': cls, 'changed': changed, 'parent': ta, 'child': tb, 'host': host,
                    'problem': problem})
    # values inherited from last_config were expanded when the earlier config was loaded; they must not be expanded again
    for i in range(n):
        d, rel = w.case_dir()
        a = os.path.join(d, 'parent')
        b = os.path.join(d, 'child')
        ta = ''.join(rng.choice(['IdentityFile id_%%h\n', 'CertificateFile c%%%%d\n', 'IdentityAgent %%d/agent\n', 'IdentityFile k_%h\n',
                                 'Port 22\n', 'IdentityFile plain\n']) for _ in range(rng.randint(1, 3)))
        tb = rng.choice(['Port 23\n', 'Compression yes\n', 'Tag t\n', 'IdentityFile other\n'])
        w.write(a, ta)
        w.write(b, tb)
        host = rng.choice(HOSTS)
        rp, parent = load_client([a], host)
        if rp[0] != 'ok':
            continue
        rc, _ = load_client([b], host, last=parent)
        ctx.note_case(('inherited', ta, tb, host), nontrivial='%%' in ta)
        if rc[0] != 'ok':
            bad = ['<' + rc[1] + '>']
        else:
            bad = []
            for k, v in rp[1].items():
                got = rc[1].get(k, SENT)
                if isinstance(v, list) and isinstance(got, list):
                    got = got[:len(v)]
                if got != v and not (k == 'Port'):
                    bad.append(k)
        if bad:
            cls = 'inherited_reexpansion' if '%%' in ta and all(k in ('IdentityFile', 'CertificateFile', 'IdentityAgent') for k in bad) \
                else 'other'
            ctx.count('inherited_differs.' + cls, group='oracle')
            report(ctx, 'inherited:' + cls,
                   f'values inherited from an earlier config are expanded again ({cls}): parent {ta!r} resolved to '
                   f'{canon_result(rp)!r}; a child config {tb!r} loaded on top of it resolves to {canon_result(rc)!r}',
                   {'kind': 'inherited', 'class': cls, 'changed': bad, 'parent': ta, 'child': tb, 'host': host})


def stage_expansion_oracle(ctx, w):
    """percent tokens and ${ENV} references expand as documented: the resolved value of a template is the
    concatenation of its pieces"""
    rng = ctx.rng
    n = 500 if ctx.tier == 'thorough' else 120
    lhost = socket.gethostname()
    short = lhost.split('.')[0]
    uid = str(os.getuid())
    d, rel = w.case_dir()
    for i in range(n):
        host = rng.choice(HOSTS)
        # user names containing expansion metacharacters are the point here
        user = rng.choice(['alice', 'al%ice', '%h', 'a%%b', '${C18_A}', 'x${C18_A}', '$', '{', 'a}b', 'bob'])
        port = rng.choice([22, 2222, ()])
        hostname = rng.choice([None, None, 'real.example.com', 'gw-%h'])
        toks = {'%': '%', 'h': (hostname or host).replace('%h', host), 'n': host, 'p': str(22 if port == () else port),
                'r': user, 'u': 'luser', 'l': lhost, 'L': short, 'd': w.home, 'i': uid}
        segs = []
        for _ in range(rng.randint(1, 5)):
            r = rng.random()
            if r < 0.45:
                c = rng.choice(list(toks))
                segs.append(('%' + c, toks[c]))
            elif r < 0.65:
                v = rng.choice(['C18_A', 'C18_B', 'C18_EMPTY', 'C18_REF', 'HOME'])
                segs.append(('${' + v + '}', w.environ()[v]))
            else:
                lit = rng.choice(['/', 'id_', '.key', '-', 'x y', '~/', '$', '{', '}', 'a$b', '$' + '{'])
                segs.append((lit, lit))
        template = ''.join(a for a, b in segs)
        want = ''.join(b for a, b in segs)
        if '${' in ''.join(a for a, b in segs if a == b) and ('}' in template or '}' in want):
            continue        # an unterminated / accidental reference written in the template itself: not a documented form
        p = os.path.join(d, 'e%d' % i)
        text = ('Hostname %s\n' % hostname if hostname else '') + 'IdentityFile "%s"\n' % template.replace('\\', '\\\\').replace('"', '\\"')
        w.write(p, text)
        res = load_client([p], host, user, port)[0]
        ctx.note_case(('expansion', template, host, user, port, hostname), nontrivial=('%' in template or '${' in template))
        got = res[1].get('IdentityFile') if res[0] == 'ok' else None
        if got == [want]:
            ctx.count('expansion_oracle.ok')
            continue
        # attribution: is the answer what "%c first, then ${name} over the result" gives?
        def _env(m):
            return w.environ().get(m.group(1), '<unset>')
        two_pass = re.sub(r'\$\{(.*?)\}', _env, ''.join(b if a.startswith('%') else a for a, b in segs))
        cause = 'two_pass_env_in_token_value' if ('${' in user and '%r' in template and got == [two_pass]) else 'other'
        ctx.count('expansion_differs.' + cause, group='oracle')
        report(
            ctx, 'expansion:' + cause,
            f'IdentityFile template {template!r} for host={host!r} user={user!r} port={port!r} Hostname={hostname!r} resolved to '
            f'{got if res[0] == "ok" else canon_result(res)!r}, the documented expansion of its pieces is {want!r} ({cause})',
            {'kind': 'expansion', 'class': cause, 'cause': cause, 'template': template, 'host': host, 'user': user,
             'port': None if port == () else port, 'hostname': hostname, 'want': want, 'text': text})


# --------------------------------------------------------------------------------------------
# extra oracle: what ssh itself resolves (ssh -G) on the common subset

SSH_OPTS = {   # asyncssh option -> (ssh -G key, kind)
    'Port': ('port', 'int'), 'User': ('user', 'str'), 'Hostname': ('hostname', 'str'), 'Compression': ('compression', 'bool'),
    'AddressFamily': ('addressfamily', 'af'), 'BindAddress': ('bindaddress', 'str'), 'SendEnv': ('sendenv', 'multi'),
    'IdentityFile': ('identityfile', 'multi'), 'CertificateFile': ('certificatefile', 'multi'),
    'ConnectTimeout': ('connecttimeout', 'int'), 'ServerAliveCountMax': ('serveralivecountmax', 'int'),
    'ServerAliveInterval': ('serveraliveinterval', 'int'), 'TCPKeepAlive': ('tcpkeepalive', 'bool'),
    'PasswordAuthentication': ('passwordauthentication', 'bool'), 'PubkeyAuthentication': ('pubkeyauthentication', 'bool'),
    'ForwardAgent': ('forwardagent', 'bool'), 'HostKeyAlias': ('hostkeyalias', 'str'),
    'UserKnownHostsFile': ('userknownhostsfile', 'words'), 'IdentitiesOnly': ('identitiesonly', 'bool'),
    'HostbasedAuthentication': ('hostbasedauthentication', 'bool'), 'CanonicalizeMaxDots': ('canonicalizemaxdots', 'int'),
    'KbdInteractiveAuthentication': ('kbdinteractiveauthentication', 'bool'),
}
SSH_VALUES = {
    'Port': ['22', '2222', '2200', '65535'], 'User': ['alice', 'bob', 'carol', 'root'],
    'Hostname': ['%h', '%h.example.com', 'gw-%h', 'real.example.com', 'db'],
    'Compression': ['yes', 'no'], 'AddressFamily': ['any', 'inet', 'inet6'], 'BindAddress': ['10.1.1.1', '10.2.2.2'],
    'SendEnv': ['LANG', 'LC_*', 'FOO', 'BAR'], 'IdentityFile': ['/k/id_a', '/k/id_b', '/k/id c', '/k/id_d'],
    'CertificateFile': ['/k/c1', '/k/c2'], 'ConnectTimeout': ['5', '30'], 'ServerAliveCountMax': ['2', '5'],
    'ServerAliveInterval': ['15', '60'], 'TCPKeepAlive': ['yes', 'no'], 'PasswordAuthentication': ['yes', 'no'],
    'PubkeyAuthentication': ['yes', 'no'], 'ForwardAgent': ['yes', 'no'], 'HostKeyAlias': ['alias1', 'alias2'],
    'UserKnownHostsFile': ['/kh/a', '/kh/b'], 'IdentitiesOnly': ['yes', 'no'], 'HostbasedAuthentication': ['yes', 'no'],
    'CanonicalizeMaxDots': ['1', '3'], 'KbdInteractiveAuthentication': ['yes', 'no'],
}
SSH_HOSTS = ['host', 'web1.example.com', 'db', 'a-b.example.org', '10.0.0.5', 'web2.example.com']
SSH_HOST_PATS = ['*', 'host', 'db', '*.example.com', 'web?.example.com', 'h*t', '!db', 'd?', 'web1.example.com', '10.0.0.*',
                 '*,!host', 'ho?t,db', 'real.example.com', 'gw-*']


def ssh_G(path, host, user, port):
    cmd = [SSH, '-G', '-F', path]
    if user != ():
        cmd += ['-l', user]
    if port != ():
        cmd += ['-p', str(port)]
    cmd.append(host)
    env = dict(os.environ)
    env.pop('SSH_AUTH_SOCK', None)
    p = subprocess.run(cmd, stdin=subprocess.DEVNULL, stdout=subprocess.PIPE, stderr=subprocess.PIPE, timeout=30, text=True, env=env)
    if p.returncode != 0:
        return None, p.stderr.strip()[-300:]
    out = {}
    for ln in p.stdout.split('\n'):
        k, _, v = ln.partition(' ')
        if k:
            out.setdefault(k, []).append(v)
    return out, ''


def dedupe(xs):
    out = []
    for x in xs:
        if x not in out:
            out.append(x)
    return out


def ssh_render(kind, v):
    if kind == 'bool':
        return ['yes' if v is True else 'no' if v is False else str(v)]
    if kind == 'int':
        return [str(v)]
    if kind == 'af':
        return [{int(socket.AF_UNSPEC): 'any', int(socket.AF_INET): 'inet', int(socket.AF_INET6): 'inet6'}.get(int(v), '?')]
    if kind == 'str':
        return [v]
    if kind == 'multi':
        return list(v)
    if kind == 'words':
        return [' '.join(v)]
    raise AssertionError(kind)


def gen_ssh_program(rng, w, flavour='base'):
    """flavour: base | backslash | host_comma | canonical_final | glob - at most one construct on which asyncssh is
    known to read a file differently from ssh, so that a disagreement can be attributed"""
    d, rel = w.case_dir()
    files = {}
    names = list(SSH_OPTS)
    backslash = flavour == 'backslash'
    has_final = flavour == 'final'
    pats_pool = [p for p in SSH_HOST_PATS if ',' not in p] if flavour != 'host_comma' else SSH_HOST_PATS + ['db,host', 'h*,d*']

    def q(v):
        if ' ' in v or rng.random() < 0.15:
            return '"' + v + '"'
        if backslash and rng.random() < 0.5:
            k = rng.randint(0, len(v) - 1)
            return v[:k] + '\\' + v[k:]
        return v

    def opt():
        name = rng.choice(names if rng.random() < 0.5 else ['Port', 'User', 'Hostname', 'SendEnv', 'IdentityFile', 'Compression'])
        vals = [rng.choice(SSH_VALUES[name])]
        if name in ('SendEnv', 'UserKnownHostsFile') and rng.random() < 0.4:
            vals.append(rng.choice(SSH_VALUES[name]))
        return spell(rng, name) + rng.choice([' ', ' ', '\t', '=', ' = ', ' =', '= ']) + ' '.join(q(v) for v in vals)

    def keywords():
        if flavour == 'canonical_final':
            return ['final', 'canonical']
        return ['final'] if has_final else ['canonical']

    def cond():
        if rng.random() < 0.5:
            pats = [rng.choice(pats_pool) for _ in range(rng.choice([1, 1, 2]))]
            return spell(rng, 'Host') + ' ' + ' '.join(pats)
        crits = []
        kws = keywords()
        r = rng.random()
        if r < 0.15:
            kw = rng.choice(kws)
            return spell(rng, 'Match') + ' ' + rng.choice(['all', kw + ' all', kw, '!' + kw])
        for _ in range(rng.choice([1, 1, 2, 3])):
            neg = '!' if rng.random() < 0.3 else ''
            c = rng.choice(['host', 'host', 'originalhost', 'user', 'localuser'] + kws)
            if c in ('final', 'canonical'):
                crits.append(neg + c)
            elif c in ('host', 'originalhost'):
                crits.append(neg + spell(rng, c) + ' ' + rng.choice(SSH_HOST_PATS))
            else:
                crits.append(neg + spell(rng, c) + ' ' + rng.choice(['alice', 'bob', 'root', 'a*', '!root', '*', 'carol,bob']))
        return spell(rng, 'Match') + ' ' + ' '.join(crits)

    confd = os.path.join(d, 'conf.d')
    inc_names = ['20-b.conf', 'a.conf', 'z.conf', '10-c.conf', 'm.conf'][:rng.randint(2, 5)]
    use_inc = flavour == 'glob' or rng.random() < 0.5
    inc_pats = [confd + '/*.conf', confd + '/??-*.conf', confd + '/*'] if flavour == 'glob' else \
        [confd + '/a.conf', confd + '/20-b.conf', confd + '/nomatch*', confd + '/a.c*']

    def body(n, allow_inc):
        lines = []
        for _ in range(n):
            r = rng.random()
            if allow_inc and use_inc and r < (0.25 if flavour == 'glob' else 0.12):
                lines.append('Include ' + rng.choice(inc_pats))
            elif r < 0.3:
                lines.append(cond())
            elif r < 0.34:
                lines.append(rng.choice(['', '# c', '  #x']))
            else:
                lines.append(opt())
        return lines
    if use_inc:
        for k, nme in enumerate(inc_names):
            extra = ['Port %d' % (3000 + k), 'SendEnv N%d' % k] if flavour == 'glob' else []
            files[os.path.join(confd, nme)] = '\n'.join(extra + body(rng.randint(1, 4), False)) + '\n'
    p = os.path.join(d, 'main0')
    lines = body(rng.randint(2, 12), True)
    if flavour == 'glob':
        lines.insert(rng.randint(0, 1), 'Include ' + inc_pats[0])
    if flavour == 'final':
        k = rng.randint(0, len(lines))
        lines[k:k] = [rng.choice(['Match final', 'Match final all', 'Match !final', 'Match final host *']), opt()]
    if flavour == 'canonical_final':
        lines.insert(rng.randint(0, len(lines)), 'Match final')
        lines.insert(rng.randint(0, len(lines)), rng.choice(['Match canonical', 'Match !canonical host *']))
    files[p] = '\n'.join(lines) + '\n'
    for f, t in files.items():
        w.write(f, t)
    return {'main': [p], 'files': files, 'dirs': [], 'dir': d}


def ssh_norm(kind, vals):
    if kind == 'bool':
        return [{'true': 'yes', 'false': 'no'}.get(v, v) for v in vals]
    return vals


def ssh_diffs(r, out, base, two):
    """differences between an asyncssh result and ssh -G output on the common option subset"""
    if r[0] != 'ok':
        return [('<load>', canon_result(r), 'accepted by ssh')]
    diffs = []
    for name, (key, kind) in SSH_OPTS.items():
        theirs = out.get(key, [])
        if name in r[1]:
            if kind == 'multi' and any(('%' in x or '${' in x or x.startswith('~')) for x in r[1][name]):
                continue
            mine = ssh_render(kind, r[1][name])
        else:
            mine = base.get(key, [])
        if kind == 'multi' and (two or name != 'SendEnv'):
            mine, theirs = dedupe(mine), dedupe(theirs)
        if ssh_norm(kind, mine) != ssh_norm(kind, theirs):
            diffs.append((name, mine, theirs))
    return diffs


def _host_as_match_host(line):
    """in ssh's final pass a Host line is matched against the name after Hostname, like "Match host" """
    m = re.match(r'^(\s*)host[ \t=]+(.*)$', line, re.I)
    if not m:
        return line
    return m.group(1) + 'Match host ' + ','.join(m.group(2).split())


def resolve_like(w, main, host, user, port, luser, mode, prog=None):
    """asyncssh's answer for a file.  mode 'actual': what connection.py does (first pass; if it met "Match final", a
    second pass from scratch with final=True).  modes 'on_top' / 'on_top_canonical' emulate, with the real loader, what
    ssh does instead: the second pass is applied on top of the first pass' options (the host name being fixed by
    then and Host lines being matched against it), with "canonical" false / true.
    Returns (result, second pass taken)."""
    if mode == 'connect':
        # the code path asyncssh.connect() really takes; None when the options of the connection are not reachable
        r = connect_resolve([main], host, user, port)['result']
        if r is not None:
            return r, bool(r[0] == 'ok' and r[2])
        mode = 'actual'
    r1, c1 = load_client([main], host, user, port, False, False, local_user=luser)
    if r1[0] != 'ok' or not r1[2]:
        return r1, False
    if mode == 'actual':
        return load_client([main], host, user, port, False, True, local_user=luser)[0], True
    hfile = os.path.join(os.path.dirname(main), 'hostname_fixed')
    # ssh fixes the host name and fills the canonicalisation defaults between the two passes
    w.write(hfile, 'Hostname "%s"\nCanonicalizeMaxDots 1\n' % r1[1].get('Hostname', host))
    main2 = rewrite_tree(w, prog, _host_as_match_host, '_fp') if prog else main
    r2, _ = load_client([hfile, main2], host, user, port, mode == 'on_top_canonical', True, local_user=luser, last=c1)
    return r2, True


def rewrite_tree(w, prog, fn, suffix):
    """copy of a program's files under <dir><suffix> with fn applied to every line; returns the new main path"""
    d = prog['dir']
    for q, t in prog['files'].items():
        t2 = '\n'.join(fn(ln) for ln in t.replace(d + '/', d + suffix + '/').split('\n'))
        w.write(q.replace(d + '/', d + suffix + '/'), t2)
    return prog['main'][0].replace(d + '/', d + suffix + '/')


def _host_comma_as_ssh(line):
    """ssh does not split Host arguments at commas: an argument with a comma is one pattern that no plain host name
    matches"""
    m = re.match(r'^(\s*host[ \t=]+)(.*)$', line, re.I)
    if not m:
        return line
    toks = []
    for t in m.group(2).split():
        if ',' in t:
            if not t.startswith('!'):
                toks.append('no-such-host-xyz')
        else:
            toks.append(t)
    return m.group(1) + ' '.join(toks or ['no-such-host-xyz'])


def _backslash_as_ssh(line):
    """ssh keeps a backslash in front of an ordinary character; written twice, shlex keeps it too"""
    return line.replace('\\', '\\\\')


def has_host_comma(files):
    return any(re.match(r'^\s*host[ \t=]+.*\S,\S', ln, re.I) for t in files.values() for ln in t.split('\n'))


def attribute_ssh_difference(w, prog, host, user, port, luser, out, base):
    """which known way of reading the file differently from ssh, if any, accounts completely for the difference"""
    main = prog['main'][0]
    text = '\n'.join(prog['files'].values()).lower()
    tries = []
    # the known final-pass findings are about ONE behaviour: the second pass is the first one done again from scratch
    # for the original name with final=True.  Only if connect() did exactly that can they account for a difference.
    as_known = resolve_like(w, main, host, user, port, luser, 'actual')[0]
    via_connect = resolve_like(w, main, host, user, port, luser, 'connect')[0]
    if 'final' in text and canon_result(as_known) == canon_result(via_connect):
        tries.append(('final_pass_restart', main, 'on_top'))
        if 'canonical' in text:
            tries.append(('canonical_final', main, 'on_top_canonical'))
    if has_host_comma(prog['files']):
        tries.append(('host_comma', rewrite_tree(w, prog, _host_comma_as_ssh, '_hc'), 'actual'))
    if '\\' in text:
        tries.append(('backslash', rewrite_tree(w, prog, _backslash_as_ssh, '_bs'), 'actual'))
    for cls, path, mode in tries:
        r, two = resolve_like(w, path, host, user, port, luser, mode, prog if path == main else None)
        if not ssh_diffs(r, out, base, two):
            return cls
    return 'unexplained'


def stage_ssh_oracle(ctx, w):
    if not os.access(SSH, os.X_OK):
        ctx.cov['oracle']['ssh_G'] = 'unavailable'
        return
    rng = ctx.rng
    n = 600 if ctx.tier == 'thorough' else 110
    try:
        luser = getpass.getuser()
    except Exception:  # noqa
        ctx.cov['oracle']['ssh_G'] = 'unavailable (no local user)'
        return
    agree = rejected = 0
    for i in range(n):
        flavour = ['base', 'base', 'base', 'base', 'base', 'final', 'glob', 'backslash', 'host_comma', 'canonical_final'][i % 10]
        prog = gen_ssh_program(rng, w, flavour)
        main = prog['main'][0]
        host = rng.choice(SSH_HOSTS)
        user = rng.choice([(), (), 'alice', 'bob'])
        port = rng.choice([(), (), 2222])
        out, err = ssh_G(main, host, user, port)
        base, _ = ssh_G('/dev/null', host, user, port)
        if out is None or base is None:
            rejected += 1
            ctx.count('ssh_G.rejected_by_ssh')
            if rejected <= 2:
                ctx.sample({'ssh_rejected': {'config': prog['files'][main], 'stderr': err}}, limit=9)
            continue
        r1, two = resolve_like(w, main, host, user, port, luser, 'connect')
        ctx.note_case(('ssh_G', tuple(sorted(prog['files'].values())), host, user, port), nontrivial=True)
        diffs = ssh_diffs(r1, out, base, two)
        if not diffs:
            agree += 1
            continue
        cause = attribute_ssh_difference(w, prog, host, user, port, luser, out, base)
        ctx.count('ssh_G_differs.' + cause, group='oracle')
        report(
            ctx, 'ssh_G:' + cause,
            f'ssh -G resolves differently ({cause}): {diffs[:4]!r} (option, asyncssh, ssh) for host={host!r} user={user!r} '
            f'port={port!r}; main config {prog["files"][main]!r}, all files {rel_files(w, prog["files"])!r}',
            {'kind': 'ssh_G', 'class': cause, 'cause': cause, 'files': rel_files(w, prog['files']), 'main': main.replace(w.root, '@ROOT@'),
             'host': host, 'user': None if user == () else user, 'port': None if port == () else port, 'diffs': diffs[:6]})
    ctx.count('ssh_G.agree', agree)
    ctx.cov['oracle']['ssh_G'] = {'programs': n, 'agree': agree, 'rejected_by_ssh': rejected}
    if rejected > n // 4 or agree < n // 3:
        ctx.broke('vacuity:ssh_G', f'agree={agree} rejected={rejected} of {n}')


def run(ctx):
    ctx.cov['rule'] = ('config programs (1-2 main files plus Include targets reached through relative, ~/ and absolute '
                       'glob patterns) generated line by line: option lines for every handler kind with random keyword '
                       'case, "=" / blank delimiters and shell-style quoting, Host and Match lines (negation, several '
                       'criteria, all/canonical/final), comments, malformed lines; targets over a host/user/port pool; '
                       'server user names exhaustively over a 13-symbol metacharacter alphabet up to length 3 (quick) / 4 '
                       '(thorough) plus longer random ones; a case is non-trivial when it resolves at least two options '
                       '(client) / one option (server) or contains the metacharacters its unit is about; distinct = '
                       'distinct (files, target) tuples')
    ctx.cov['trusted_base'] += [
        'shlex.split, fnmatch (as restricted by pattern.py), the two expansion regexes, int(), str.strip/lower are '
        'modelled in Model/Config.v for printable ASCII + tab and tied by unit correspondence on every run',
        'pathlib glob is modelled for "*" and "?" per path component only; the order in which a directory lists its '
        'entries is an input of the model (taken from os.scandir by the harness)',
        'not modelled: Match exec/address/localaddress/localnetwork, the %C token, ~user and [..]/** Include patterns, '
        'non-ASCII text, Windows path handling, option plumbing in connection.py beyond the first/final pass',
        '/usr/bin/ssh -G (OpenSSH 9.2) is trusted as the reference for the common option subset; '
        'glob.glob(sorted) is trusted as the order in which ssh reads Include matches',
        'a disagreement with ssh is attributed to a known finding only after re-resolving the same files with the real '
        'loader in the way ssh reads them (second pass on top of the first, canonical true, comma / backslash kept) '
        'removes the whole difference; anything left over is reported as unexplained',
    ]
    core.setup_paths()
    ctx.prove()
    w = World()
    try:
        client_keep = []
        for st in (stage_tables, stage_units, stage_client_configs, stage_server_configs, stage_two_pass, stage_users,
                   stage_firstwins_oracle, stage_none_first, stage_final_registered, stage_connect_target, stage_include_oracle, stage_purity_oracle, stage_ssh_oracle,
                   stage_multipath_oracle, stage_expansion_oracle):
            if st is stage_tables or st is stage_units:
                st(ctx)
            elif st is stage_client_configs:
                client_keep = st(ctx, w)
            elif st is stage_firstwins_oracle:
                st(ctx, w, client_keep)
            else:
                st(ctx, w)
            ctx.log('stage done: ' + st.__name__)
    finally:
        w.close()


def _materialise(w, files):
    out = {}
    for p, t in files.items():
        q = p.replace('@ROOT@', w.root)
        w.write(q, t.replace('@ROOT@', w.root))
        out[q] = t.replace('@ROOT@', w.root)
    return out


def replay(rp):
    core.setup_paths()
    kind = rp.get('kind')
    w = World()
    try:
        user = () if rp.get('user') is None else rp['user']
        port = () if rp.get('port') is None else rp['port']
        if kind == 'include_inline':
            files = _materialise(w, rp['files'])
            main = rp['main'].replace('@ROOT@', w.root)

            def run1(paths):
                if rp['client']:
                    return load_client(paths, rp['host'], user, port)[0]
                return load_server(paths, rp['server_user'], 'h', '1.2.3.4')[0]
            inl = os.path.join(os.path.dirname(main), 'inlined')
            w.write(inl, inline_text(w, files[main], _glob_sorted))
            a, b = canon_result(run1([main])), canon_result(run1([inl]))
            print('with Include:', a)
            print('inlined     :', b)
            return 1 if a != b else 0
        if kind == 'multipath':
            d, _ = w.case_dir()
            paths = [os.path.join(d, 'c%d' % k) for k in range(2)]
            for q, t in zip(paths, rp['texts']):
                w.write(q, t)
            cat = os.path.join(d, 'cat')
            w.write(cat, rp['texts'][0] + 'Match all\n' + rp['texts'][1])
            a = canon_result(load_client(paths, rp['host'], user, port)[0])
            b = canon_result(load_client([cat], rp['host'], user, port)[0])
            print('as list     :', a)
            print('concatenated:', b)
            return 1 if a != b else 0
        if kind == 'purity':
            d, _ = w.case_dir()
            a, b = os.path.join(d, 'parent'), os.path.join(d, 'child')
            w.write(a, rp['parent'])
            w.write(b, rp['child'])
            rp0, parent = load_client([a], rp['host'])
            before = canon_result(rp0)
            r1, _ = load_client([b], rp['host'], last=parent)
            after = canon_result(('ok', observe(parent, True), bool(parent.has_match_final())))
            r2, _ = load_client([b], rp['host'], last=parent)
            print('parent before:', before)
            print('parent after :', after)
            print('child 1st/2nd:', canon_result(r1), canon_result(r2))
            return 1 if (before != after or canon_result(r1) != canon_result(r2)) else 0
        if kind == 'inherited':
            d, _ = w.case_dir()
            a, b = os.path.join(d, 'parent'), os.path.join(d, 'child')
            w.write(a, rp['parent'])
            w.write(b, rp['child'])
            r0, parent = load_client([a], rp['host'])
            rc, _ = load_client([b], rp['host'], last=parent)
            print('parent:', canon_result(r0))
            print('child :', canon_result(rc))
            if r0[0] != 'ok' or rc[0] != 'ok':
                return 1 if r0[0] == 'ok' else 0
            for k, v in r0[1].items():
                got = rc[1].get(k, SENT)
                if isinstance(v, list) and isinstance(got, list):
                    got = got[:len(v)]
                if got != v and k != 'Port':
                    return 1
            return 0
        if kind == 'none_first':
            client, name = rp['client'], rp['option']
            both, only, files = none_first_program(w, client, name, rp['shape'], rp['word'], NONE_REAL[name], rp['target'])
            run1 = (lambda ps: load_client(ps, rp['target'])[0]) if client else (lambda ps: load_server(ps, rp['target'], 'h', '1.2.3.4')[0])
            a, b = run1(both), run1(only)
            print('files:', rel_files(w, files))
            print('with the later line   :', canon_result(a))
            print('without the later line:', canon_result(b))
            want = None if kinds(client)[name] == 'KString' else []
            bad = a[0] != 'ok' or canon_result(a) != canon_result(b) or a[1].get(name, SENT) != want
            return 1 if bad else 0
        if kind == 'connect_target':
            d, _ = w.case_dir()
            q = os.path.join(d, 'cfg')
            w.write(q, rp['text'])
            out, err = ssh_G(q, rp['host'], (), ())
            cr = connect_resolve([q], rp['host'])
            want = (out.get('hostname', ['?'])[0], int(out.get('port', ['0'])[0])) if out else None
            print('asyncssh.connect targets', cr['target'], 'user', cr['username'], '| ssh -G:', want, out.get('user') if out else err)
            bad = out is not None and (cr['target'] != want or
                                       (cr['username'] is not None and cr['username'] != out.get('user', ['?'])[0]))
            return 1 if bad else 0
        if kind == 'final_registered':
            d, _ = w.case_dir()
            q = os.path.join(d, 'cfg')
            w.write(q, rp['text'])
            r, _ = load_client([q], rp['host'], user, port)
            print('result:', canon_result(r))
            return 1 if (r[0] == 'ok' and not r[2]) else 0
        if kind == 'expansion':
            d, _ = w.case_dir()
            q = os.path.join(d, 'e')
            w.write(q, rp['text'])
            res = load_client([q], rp['host'], rp['user'], port)[0]
            got = res[1].get('IdentityFile') if res[0] == 'ok' else None
            want = rp['want'].replace('@ROOT@', w.root)
            print('resolved:', got, 'documented:', [want])
            return 0 if got == [want] else 1
        if kind == 'unsafe_user':
            d, _ = w.case_dir()
            q = os.path.join(d, 'sshd_config')
            w.write(q, 'AuthorizedKeysFile ' + ' '.join(rp['templates']) + '\n')
            res, _ = load_server([q], rp['user'], 'h', '1.2.3.4')
            print('result:', canon_result(res))
            if res[0] != 'ok':
                return 0 if res[1] == 'EUser' else 1
            return 1 if user_oracle(rp['user'], rp['templates'], res[1].get('AuthorizedKeysFile')) else 0
        if kind == 'first_wins':
            files = _materialise(w, rp['files'])
            main = rp['main'].replace('@ROOT@', w.root)
            r1 = load_client([main], rp['host'], user, port, rp['canonical'], rp['final'])[0]
            ext = os.path.join(os.path.dirname(main), 'main_fw')
            w.write(ext, files[main] + '\nMatch all\nPort 4242\nUser zed\nCompression no\nSendEnv ZZ9\nUserKnownHostsFile /kh/zz\n')
            r2 = load_client([ext], rp['host'], user, port, rp['canonical'], rp['final'])[0]
            print('before:', canon_result(r1))
            print('after :', canon_result(r2))
            if r1[0] != 'ok' or r2[0] != 'ok':
                return 1 if r1[0] == 'ok' else 0
            bad = any(n in r1[1] and r2[1].get(n) != r1[1][n] for n in ('Port', 'User', 'Compression', 'UserKnownHostsFile'))
            bad = bad or r2[1].get('SendEnv') != r1[1].get('SendEnv', []) + ['ZZ9']
            return 1 if bad else 0
        if kind == 'ssh_G':
            files = _materialise(w, rp['files'])
            main = rp['main'].replace('@ROOT@', w.root)
            luser = getpass.getuser()
            out, err = ssh_G(main, rp['host'], user, port)
            base, _ = ssh_G('/dev/null', rp['host'], user, port)
            if out is None:
                print('ssh rejects the file:', err)
                return 0
            r1, two = resolve_like(w, main, rp['host'], user, port, luser, 'connect')
            diffs = ssh_diffs(r1, out, base, two)
            for dd in diffs:
                print('differs (option, asyncssh, ssh):', dd)
            return 1 if diffs else 0
        print('unknown replay kind', kind)
        return 2
    finally:
        w.close()
