"""C19 - Stream and process APIs deliver what was sent, split as asked."""
import asyncio
import os

from .. import core, sshutil
from .. import c19_stream as cs
from ..core import zl, copt, cz, clist

IMPORTS = 'From AV Require Import Base.Prelude Model.Stream Corr.C19Corr.'

ALPHA = b'ab\n,;'
SEPS1 = [b'\n', b',', b'ab', b'a\n', b';;', b'aba', b'ba', b'\n\n', b'a', b',;a']
SEPSN = [[b'\n', b','], [b'ab', b';'], [b'a,', b'b;'], [b'\n', b'ab', b';;'], [b'aba', b'bab'],
         [b'ab', b'abc'], [b'ba', b'a'], [b'a', b'ba'], [b',', b',;', b';']]


# --------------------------------------------------------------------------------------------
# generator for the stream level

def chop(rng, data, maxc):
    out = []
    i = 0
    while i < len(data):
        k = rng.randint(1, maxc)
        out.append(data[i:i + k])
        i += k
    return out


def gen_prog(rng, total, limit, allow_odd):
    prog = []
    for _ in range(rng.randint(1, 5)):
        r = rng.random()
        if r < 0.22:
            n = rng.choice([-1, -1, 0, 1, 2, 3, 5, 8, max(1, limit), limit + 3, total + 2])
            prog.append(('read', n))
        elif r < 0.44:
            n = rng.choice([1, 2, 3, 4, 7, max(1, limit - 1), max(1, limit), limit + 2, total + 1, 0, -1])
            prog.append(('exact', n))
        elif r < 0.62:
            s = rng.choice(SEPS1)
            if allow_odd and rng.random() < 0.03:
                s = b''
            prog.append(('until1', s))
        elif r < 0.78:
            ss = list(rng.choice(SEPSN))
            if allow_odd and rng.random() < 0.05:
                ss = rng.choice([[], [b''], [b'', b'a']])
            prog.append(('untiln', ss))
        elif r < 0.95:
            prog.append(('line',))
        else:
            prog.append(('drain',))
    return prog


def gen_case(rng, well_formed):
    """One (limit, program, schedule). well_formed: no empty chunk, nothing after EOF, no odd separators."""
    limit = rng.choice([0, 0, 0, rng.randint(3, 12), rng.randint(3, 12), 64])
    total = rng.randint(0, 28)
    data = bytes(rng.choice(ALPHA) for _ in range(total))
    evs = []
    pos = 0
    nexn = rng.choice([0, 0, 0, 1, 1, 2])
    cuts = sorted(rng.randint(0, total) for _ in range(nexn))
    for c in cuts + [total]:
        for ch in chop(rng, data[pos:c], rng.choice([1, 2, 3, 6, 30])):
            evs.append(('data', ch))
            if not well_formed and rng.random() < 0.06:
                evs.append(('data', b''))
        pos = c
        if c != total or len(evs) < 0:
            pass
        if cuts and c in cuts:
            cuts.remove(c)
            if not well_formed and rng.random() < 0.15:
                evs.append(('data', b''))
            evs.append(('exn', rng.choice([cs.SOFT, 7, 7, 9])))
    end = rng.choice(['eof', 'eof', 'eof', 'lost', 'lostx', 'eof+lost', 'none'])
    tail = {'eof': [('eof', None)], 'lost': [('lost', None)], 'lostx': [('lost', cs.LOST_BASE + 1)],
            'eof+lost': [('eof', None), ('lost', cs.LOST_BASE + 2)], 'none': []}[end]
    if not well_formed and evs and rng.random() < 0.1:
        k = rng.randint(0, len(evs))
        evs = evs[:k] + tail + evs[k:]
    else:
        evs = evs + tail
    prog = gen_prog(rng, total, limit, allow_odd=not well_formed)
    if any(o[0] == 'drain' for o in prog):
        for _ in range(rng.randint(1, 3)):
            evs.insert(rng.randint(0, len(evs)), (rng.choice(['pausew', 'pausew', 'resumew']), None))
    # schedule: deliveries with consumer turns in between; a turn may carry synchronous resume batches
    p_run = rng.choice([0.0, 0.2, 0.5, 1.0])
    sched = []
    for e in evs:
        sched.append(('ev', e[0], e[1]))
        if rng.random() < p_run:
            sched.append(('run', gen_batches(rng, limit)))
    sched.append(('run', gen_batches(rng, limit)))
    if rng.random() < 0.3:
        sched.append(('run', []))
    return limit, prog, sched


def gen_batches(rng, limit):
    if not limit or rng.random() < 0.5:
        return []
    out = []
    for _ in range(rng.randint(1, 3)):
        b = [('data', bytes(rng.choice(ALPHA) for _ in range(rng.randint(1, max(2, limit))))) for _ in range(rng.randint(0, 3))]
        out.append(b)
    return out


def js_sched(sched):
    out = []
    for st in sched:
        if st[0] == 'ev':
            out.append(['ev', st[1], list(st[2]) if isinstance(st[2], (bytes, bytearray)) else st[2]])
        else:
            out.append(['run', [[[k, list(a) if isinstance(a, (bytes, bytearray)) else a] for k, a in b] for b in st[1]]])
    return out


def unjs_sched(js):
    out = []
    for st in js:
        if st[0] == 'ev':
            out.append(('ev', st[1], bytes(st[2]) if isinstance(st[2], list) else st[2]))
        else:
            out.append(('run', [[(k, bytes(a) if isinstance(a, list) else a) for k, a in b] for b in st[1]]))
    return out


def js_prog(prog):
    out = []
    for o in prog:
        if o[0] == 'until1':
            out.append(['until1', list(o[1])])
        elif o[0] == 'untiln':
            out.append(['untiln', [list(s) for s in o[1]]])
        else:
            out.append(list(o))
    return out


def unjs_prog(js):
    out = []
    for o in js:
        if o[0] == 'until1':
            out.append(('until1', bytes(o[1])))
        elif o[0] == 'untiln':
            out.append(('untiln', [bytes(s) for s in o[1]]))
        else:
            out.append(tuple(o))
    return out


def strip_empty(sched):
    out = []
    for st in sched:
        if st[0] == 'ev':
            if st[1] == 'data' and len(st[2]) == 0:
                continue
            out.append(st)
        else:
            out.append(('run', [[e for e in b if not (e[0] == 'data' and len(e[1]) == 0)] for b in st[1]]))
    return out


def classify(limit, prog, sched, why, calls):
    """root cause class of a deviation: 'empty-chunk' when it disappears once empty chunks are removed,
    'stale-pause' for a partial read with no cause after the window had filled, else 'other'"""
    s2 = strip_empty(sched)
    if s2 != sched:
        _, devs2 = cs.execute(limit, prog, s2)
        if not devs2:
            return 'empty-chunk'
    if 'without EOF, exception or a full window' in why and limit and True in calls:
        return 'stale-pause'
    return 'other'


def shrink(limit, prog, sched, cls):
    """greedy reduction of a deviating case, keeping a deviation of the same class"""
    def still(p, s):
        try:
            obs, devs = cs.execute(limit, p, s)
        except Exception:
            return False
        return any(classify(limit, p, s, w, obs[1]) == cls for _, w in devs)
    changed = True
    while changed:
        changed = False
        for i in range(len(sched)):
            s2 = sched[:i] + sched[i + 1:]
            if still(prog, s2):
                sched = s2
                changed = True
                break
        else:
            for i in range(len(prog)):
                p2 = prog[:i] + prog[i + 1:]
                if p2 and still(p2, sched):
                    prog = p2
                    changed = True
                    break
    return prog, sched


def spans_boundary(prog, sched):
    """some separator of the program occurs across a chunk boundary of the delivered data"""
    chunks = [st[2] for st in sched if st[0] == 'ev' and st[1] == 'data']
    data = b''.join(chunks)
    bounds = set()
    p = 0
    for c in chunks[:-1]:
        p += len(c)
        bounds.add(p)
    for o in prog:
        seps = [b'\n'] if o[0] == 'line' else [o[1]] if o[0] == 'until1' else list(o[1]) if o[0] == 'untiln' else []
        for s in seps:
            if len(s) < 2:
                continue
            i = data.find(s)
            while i >= 0:
                if any(i < b < i + len(s) for b in bounds):
                    return True
                i = data.find(s, i + 1)
    return False


def stage_stream(ctx):
    rng = ctx.rng
    n = 25000 if ctx.tier == 'thorough' else 2500
    cases = []
    metas = []
    seen_kinds = set()
    for i in range(n):
        wf = rng.random() < 0.7
        limit, prog, sched = gen_case(rng, wf)
        obs, devs = cs.execute(limit, prog, sched)
        results, calls, ateof = obs
        cases.append(cs.c_case(limit, prog, sched, obs))
        metas.append((limit, prog, sched))
        span = spans_boundary(prog, sched)
        nchunks = sum(1 for st in sched if st[0] == 'ev' and st[1] == 'data')
        ctx.note_case(('stream', limit, tuple(map(repr, prog)), repr(sched)), nontrivial=(nchunks >= 2 and len(results) > 0))
        ctx.count('stream.well_formed' if wf else 'stream.hostile')
        if span:
            ctx.count('stream.separator_spans_chunk_boundary')
        if calls:
            ctx.count('stream.paused_at_window')
        if any(st[0] == 'run' and st[1] for st in sched) and calls.count(False):
            ctx.count('stream.resume_with_synchronous_delivery')
        if len(results) < len(prog):
            ctx.count('stream.consumer_left_blocked')
        for r in results:
            ctx.count('stream.result.' + r[0])
        for o in prog:
            ctx.count('stream.op.' + o[0])
        if i < 2:
            ctx.sample({'stream': {'limit': limit, 'program': repr(prog), 'schedule': repr(sched), 'results': repr(results)}})
        for idx, why in devs:
            kind = classify(limit, prog, sched, why, calls)
            ctx.count('stream.deviation.' + kind, group='oracle')
            if kind in seen_kinds:
                continue
            seen_kinds.add(kind)
            p2, s2 = shrink(limit, prog, sched, kind)
            obs2, devs2 = cs.execute(limit, p2, s2)
            idx2, why2 = devs2[0] if devs2 else (idx, why)
            ctx.failing_input(
                f'stream API ({kind}): call #{idx2} {p2[idx2]!r}: {why2} [window {limit}, schedule {s2!r}, results {obs2[0]!r}]',
                {'kind': 'stream', 'class': kind, 'limit': limit, 'prog': js_prog(p2), 'sched': js_sched(s2),
                 'call': idx2, 'why': why2})
    bad = ctx.coq_cases('stream_schedule', IMPORTS, 'chk_sched', cases,
                        ty='Z * list op * list step * (list result * list bool * bool)', shard=250)
    if bad:
        ctx.broke('correspondence:stream_schedule',
                  f'{len(bad)} of {len(cases)} schedules differ; first: {cases[bad[0]]}')
    d = ctx.cov['distribution']
    for key, need in (('stream.separator_spans_chunk_boundary', 20), ('stream.paused_at_window', 20),
                      ('stream.resume_with_synchronous_delivery', 5), ('stream.result.inc', 10),
                      ('stream.result.raise', 10), ('stream.consumer_left_blocked', 5)):
        if d.get(key, 0) < need:
            ctx.broke('vacuity:' + key, f'only {d.get(key, 0)} cases (need {need})')



# --------------------------------------------------------------------------------------------
# redirection at the stub level: the real SSHClientProcess on a stub channel, target = a recording file object

import io


class RecFile(io.BytesIO):
    """a file-like redirect target that records what the writer does to it"""

    def __init__(self):
        super().__init__()
        self.toks = []

    def write(self, d):
        self.toks.append(('data', bytes(d)))
        return len(d)

    def close(self):
        self.toks.append(('eof',))

    def fileno(self):
        raise io.UnsupportedOperation('fileno')


def run_redirect(events):
    """events: ('data', b) | ('eof',) | ('setw', recv_eof). Returns the tokens the target received."""
    import asyncssh
    loop = asyncio.new_event_loop()
    try:
        chan = cs.StubChan(loop, 0)
        proc = asyncssh.SSHClientProcess()
        chan.session = proc
        proc.connection_made(chan)
        proc.session_started()
        target = RecFile()
        for e in events:
            if e[0] == 'data':
                proc.data_received(e[1], None)
            elif e[0] == 'eof':
                proc.eof_received()
            else:
                coro = proc.redirect(stdout=target, recv_eof=e[1])
                try:
                    coro.send(None)
                    raise RuntimeError('redirect to a file object suspended')
                except StopIteration:
                    pass
        return list(target.toks)
    finally:
        loop.close()


def stage_redirect_stub(ctx):
    rng = ctx.rng
    cases = []
    n = 5000 if ctx.tier == 'thorough' else 400
    for i in range(n):
        evs = [('data', bytes(rng.choice(ALPHA) for _ in range(rng.randint(1, 6)))) for _ in range(rng.randint(0, 6))]
        if rng.random() < 0.7:
            evs.append(('eof',))
        if rng.random() < 0.9:
            evs.insert(rng.randint(0, len(evs)), ('setw', rng.random() < 0.7))
        got = run_redirect(evs)
        ctx.note_case(('redir', repr(evs)), nontrivial=any(e[0] == 'setw' for e in evs) and len(evs) > 2)
        k = [j for j, e in enumerate(evs) if e[0] == 'setw']
        if k and any(e[0] == 'data' for e in evs[:k[0]]) and any(e[0] == 'data' for e in evs[k[0]:]):
            ctx.count('redirect.data_on_both_sides_of_attach')
        if k and ('eof',) in evs[:k[0]]:
            ctx.count('redirect.eof_before_attach')
        cev = clist(evs, lambda e: 'RvData ' + zl(e[1]) if e[0] == 'data' else 'RvEof' if e[0] == 'eof'
                    else 'RvSetWriter ' + core.cbool(e[1]))
        ctk = clist(got, lambda x: 'TData ' + zl(x[1]) if x[0] == 'data' else 'TEof')
        cases.append('(%s, %s)' % (cev, ctk))
        # direct oracle: all data, in order, then EOF iff requested
        if k:
            want = b''.join(e[1] for e in evs if e[0] == 'data')
            have = b''.join(x[1] for x in got if x[0] == 'data')
            eof_wanted = ('eof',) in evs and evs[k[0]][1]
            if want != have or (('eof',) in got) != eof_wanted or (('eof',) in got and got[-1] != ('eof',)):
                ctx.failing_input(f'redirect of stdout to a file object: events {evs!r} wrote {got!r}',
                                  {'kind': 'redirect_stub', 'events': [[e[0]] + [list(x) if isinstance(x, bytes) else x for x in e[1:]] for e in evs]})
    bad = ctx.coq_cases('redirect', IMPORTS, 'chk_redir', cases, ty='list revent * list wtok')
    if bad:
        ctx.broke('correspondence:redirect', f'{len(bad)} differ; first: {cases[bad[0]]}')
    for key, need in (('redirect.data_on_both_sides_of_attach', 10), ('redirect.eof_before_attach', 5)):
        if ctx.cov['distribution'].get(key, 0) < need:
            ctx.broke('vacuity:' + key, 'too few cases')


# --------------------------------------------------------------------------------------------
# end to end over real loopback connections

SCRIPTS = {}
SRV_RESULTS = {}


async def _read_prog(reader, prog, results, text=False):
    """run the read program on a real SSHReader, recording results like the stub-level consumer"""
    import asyncssh
    enc = (lambda r: r.encode('utf-8')) if text else bytes
    for op in prog:
        k = op[0]
        try:
            if k == 'read':
                r = await reader.read(op[1])
            elif k == 'exact':
                r = await reader.readexactly(op[1])
            elif k == 'until1':
                r = await reader.readuntil(op[1].decode() if text else bytes(op[1]))
            elif k == 'untiln':
                r = await reader.readuntil(tuple((s.decode() if text else bytes(s)) for s in op[1]))
            else:
                r = await reader.readline()
            results.append(('ok', enc(r)))
        except asyncio.IncompleteReadError as e:
            results.append(('inc', enc(e.partial), e.expected))
        except asyncssh.BreakReceived as e:
            results.append(('raise', e.msec))
        except TypeError:
            results.append(('type',))
        except ValueError:
            results.append(('value',))


async def _server_process(process):
    from asyncssh.packet import String, Boolean, UInt32
    from asyncssh.constants import MSG_CHANNEL_REQUEST
    acts = SCRIPTS.get(process.command, [])
    try:
        for a in acts:
            k = a[0]
            if k == 'out':
                process.stdout.write(a[1])
            elif k == 'err':
                process.stderr.write(a[1])
            elif k == 'drain':
                await process.stdout.drain()
            elif k == 'yield':
                await asyncio.sleep(0)
            elif k == 'eof':
                process.stdout.write_eof()
            elif k == 'status':
                process.channel.send_packet(MSG_CHANNEL_REQUEST, String('exit-status'), Boolean(False), UInt32(a[1]))
            elif k == 'signal':
                process.channel.send_packet(MSG_CHANNEL_REQUEST, String('exit-signal'), Boolean(False),
                                            String('TERM'), Boolean(False), String(''), String(''))
            elif k == 'exit':
                process.exit(a[1])
            elif k == 'close':
                process.close()
            elif k == 'cat':
                while True:
                    d = await process.stdin.read(4096)
                    if not d:
                        break
                    process.stdout.write(d)
                    await process.stdout.drain()
            elif k == 'slowcat':
                # a slow consumer: small reads with loop turns in between, nothing echoed; the byte count comes back
                total = 0
                while True:
                    d = await process.stdin.read(a[1])
                    if not d:
                        break
                    total += len(d)
                    for _ in range(a[2]):
                        await asyncio.sleep(0)
                process.stdout.write(b'%d' % total)
            elif k == 'techo':
                # text session: every line read from stdin is written back in several separate writes
                while True:
                    line = await process.stdin.readline()
                    if not line:
                        break
                    cuts = a[1]
                    pos = 0
                    for c in cuts:
                        process.stdout.write(line[pos:pos + c])
                        pos += c
                    process.stdout.write(line[pos:])
                    process.stderr.write(line[:1])
                    process.stderr.write(line[1:])
            elif k == 'prog':
                res = []
                SRV_RESULTS[process.command] = res
                await _read_prog(process.stdin, a[1], res)
    except (BrokenPipeError, ConnectionError, OSError):
        pass


def e2e_judge(prog, stream, results, window):
    """timing-independent part of the documented behaviour, for data that ends with EOF"""
    pos = 0
    for op, res in zip(prog, results):
        rem = stream[pos:]
        k = op[0]
        if res[0] not in ('ok', 'inc', 'value'):
            return f'call {op!r} ended with {res!r}'
        if res[0] == 'value':
            continue
        r = res[1]
        if not rem.startswith(r):
            return f'call {op!r} returned {r!r} which is not the next data {rem[:40]!r}'
        if k == 'read':
            n = op[1]
            if res[0] != 'ok':
                return f'read({n}) raised IncompleteReadError'
            if n == 0 and r != b'':
                return 'read(0) returned data'
            if n > 0 and not (0 < len(r) <= n or (r == b'' and rem == b'')):
                return f'read({n}) returned {len(r)} bytes with {len(rem)} still to come'
            if n < 0 and r != rem:
                return f'read() returned {len(r)} of {len(rem)} bytes before EOF'
        elif k == 'exact':
            n = op[1]
            if n > 0 and res[0] == 'ok' and len(r) != n:
                return f'readexactly({n}) returned {len(r)} bytes'
            if n > 0 and res[0] == 'inc' and not (r == rem and len(rem) < n and res[2] == n):
                return f'readexactly({n}) raised IncompleteReadError({len(r)} bytes, expected {res[2]}) with {len(rem)} bytes to come'
        else:
            seps = [b'\n'] if k == 'line' else [bytes(op[1])] if k == 'until1' else [bytes(s) for s in op[1]]
            if k != 'line' and not cs.infix_free(seps):
                why = cs.weak_until_check(rem, seps, res)
                if why:
                    return why
                pos += len(r)
                continue
            end = cs.first_match_end(rem, seps)
            complete = res[0] == 'ok' and end is not None and r == rem[:end]
            partial_ok = (end is None and r == rem) or (window and len(r) >= window and cs.first_match_end(r, seps) is None)
            if res[0] == 'inc' and k == 'line':
                return 'IncompleteReadError escaped from readline'
            if not (complete or (partial_ok and (res[0] == 'inc' or k == 'line'))):
                return f'{k} {seps!r} returned {res[0]} {r[:40]!r}; next data {rem[:40]!r}, window {window}'
        pos += len(r)
    return None


def gen_e2e_read_case(rng, big):
    window = rng.choice([64, 200, 1024, 2 * 1024 * 1024])
    total = rng.randint(0, 3 * window if (big and window <= 1024) else 60)
    data = bytes(rng.choice(ALPHA) for _ in range(total))
    chunks = chop(rng, data, rng.choice([1, 3, 7, 40, max(1, window // 2), 2 * window]))
    acts = []
    for c in chunks:
        acts.append(('out', c))
        acts.append(rng.choice([('drain',), ('yield',), ('drain',)]))
    acts += [('eof',), ('exit', 0)]
    prog = []
    for _ in range(rng.randint(1, 5)):
        r = rng.random()
        if r < 0.3:
            prog.append(('exact', rng.choice([1, 2, 5, window - 1, window, window + 1, 2 * window + 3, max(1, total // 2)])))
        elif r < 0.5:
            prog.append(('read', rng.choice([1, 3, window, 2 * window, -1, 0])))
        elif r < 0.7:
            prog.append(('line',))
        elif r < 0.85:
            prog.append(('until1', rng.choice(SEPS1)))
        else:
            prog.append(('untiln', list(rng.choice(SEPSN))))
    prog.append(('read', -1))
    return window, data, acts, prog


def model_comparable(prog, total, window):
    for o in prog:
        if o[0] == 'read' and o[1] > 0:
            return False
        if o[0] == 'untiln' and len({len(s) for s in o[1]}) != 1:
            return False
        if o[0] in ('until1', 'untiln', 'line') and total >= window:
            return False
    return True


_SEQ = [0]
HANGS = [0]


def new_id(acts):
    _SEQ[0] += 1
    cid = 'c%d' % _SEQ[0]
    SCRIPTS[cid] = acts
    return cid


async def case_read(conn, window, acts, prog, late=False):
    """client runs the read program on stdout of a process whose server side follows acts; late = the
    client starts reading only after the output had time to fill the window and queue up in the channel"""
    cid = new_id(acts)
    proc = await conn.create_process(cid, encoding=None, window=window)
    results = []
    hung = False
    if late:
        await asyncio.sleep(0.03)
    try:
        await asyncio.wait_for(_read_prog(proc.stdout, prog, results), 60)
    except asyncio.TimeoutError:
        hung = True
    proc.close()
    SCRIPTS.pop(cid, None)
    return results, hung


def judge_read(prog, data, results, hung, window):
    if hung:
        return 'hang', (f'read program {prog!r} did not finish (window {window}, {len(data)} bytes, EOF sent): '
                        f'{len(results)} of {len(prog)} calls returned')
    why = e2e_judge(prog, data, results, window)
    joined = b''.join(r[1] for r in results if r[0] in ('ok', 'inc'))
    if why is None and joined != data:
        why = f'the calls returned {len(joined)} bytes in total, the server sent {len(data)}'
    return ('wrong-data', why) if why else (None, None)


async def case_text(conn, chunks, sizes):
    """text (utf-8) session; the server writes the byte chunks one packet each; the client calls read(n)
    until at_eof().  Returns (text received, number of empty results that were not EOF, timed out)."""
    acts = []
    for c in chunks:
        acts += [('out', c), ('drain',), ('yield',), ('yield',)]
    acts += [('eof',), ('exit', 0)]
    cid = new_id(acts)
    proc = await conn.create_process(cid, window=1024)
    got = []
    spurious = 0
    timed_out = False
    k = 0
    try:
        while True:
            r = await asyncio.wait_for(proc.stdout.read(sizes[k % len(sizes)]), 30)
            k += 1
            if r == '':
                if proc.stdout.at_eof():
                    break
                spurious += 1
                if spurious > 1000:
                    break
                continue
            got.append(r)
    except asyncio.TimeoutError:
        timed_out = True
    proc.close()
    SCRIPTS.pop(cid, None)
    return ''.join(got), spurious, timed_out


async def case_exit(conn, acts, window, use_run):
    """use_run: True = conn.run(); False = create_process + wait(); 'late' = wait() is called only after the
    output had time to arrive and fill the window (reading paused, channel queueing, close pending)"""
    cid = new_id(acts)
    try:
        if use_run is True:
            res = await asyncio.wait_for(conn.run(cid, encoding=None, window=window), 60)
        else:
            proc = await conn.create_process(cid, encoding=None, window=window)
            if use_run == 'late':
                await asyncio.sleep(0.03)
            res = await asyncio.wait_for(proc.wait(), 60)
        got = (res.exit_status, bytes(res.stdout), bytes(res.stderr))
    except asyncio.TimeoutError:
        got = None
    SCRIPTS.pop(cid, None)
    return got


def judge_exit(acts, got, window):
    want_out = b''.join(a[1] for a in acts if a[0] == 'out')
    want_err = b''.join(a[1] for a in acts if a[0] == 'err')
    if got is None:
        return 'hang', f'wait()/run() did not return although the server closed the channel; script {acts!r}'
    if got[1] != want_out or got[2] != want_err:
        return 'incomplete-output', (
            f'exit status {got[0]!r} was reported with {len(got[1])}/{len(want_out)} bytes of stdout and '
            f'{len(got[2])}/{len(want_err)} bytes of stderr; server script {acts!r}, window {window}')
    return None, None


async def case_drain(conn, kind, size):
    """kind 'consumed': the server reads everything, drain must return with the write buffer below the
    high-water mark.  kind 'closed': the server closes without reading, drain must fail."""
    if kind == 'consumed':
        cid = new_id([('cat',), ('exit', 0)])
        proc = await conn.create_process(cid, encoding=None, stdout=__import__('asyncssh').DEVNULL)
        proc.stdin.write(b'x' * size)
        try:
            await asyncio.wait_for(proc.stdin.drain(), 60)
            left = proc.channel.get_write_buffer_size()
            out = ('returned', left)
        except asyncio.TimeoutError:
            out = ('hang', None)
        except OSError as e:
            out = ('raised', type(e).__name__)
        try:
            proc.stdin.write_eof()
            await asyncio.wait_for(proc.wait(), 60)
        except (OSError, asyncio.TimeoutError):
            proc.close()
        return out
    cid = new_id([('close',)])
    proc = await conn.create_process(cid, encoding=None)
    try:
        proc.stdin.write(b'x' * size)
        await asyncio.wait_for(proc.stdin.drain(), 60)
        out = ('returned', proc.channel.get_write_buffer_size())
    except asyncio.TimeoutError:
        out = ('hang', None)
    except (OSError, __import__('asyncssh').Error) as e:
        out = ('raised', type(e).__name__)
    return out


async def e2e_all(ctx):
    import asyncssh
    rng = ctx.rng
    listener, conn = await sshutil.loopback(srv_kw={'process_factory': _server_process, 'encoding': None})
    guard = sshutil.LoopGuard(asyncio.get_event_loop())
    cases_read, cases_wait = [], []
    try:
        # ---- (a) client reads what the server wrote in generated chunks -------------------------
        n = 2500 if ctx.tier == 'thorough' else 250
        for i in range(n):
            window, data, acts, prog = gen_e2e_read_case(rng, big=(i % 3 == 0))
            late = (i % 4 == 1)
            if late and len(data) > window:
                ctx.count('e2e_read.started_after_window_filled')
            results, hung = await case_read(conn, window, acts, prog, late)
            if hung:        # wall-clock guard fired: report only if it reproduces
                results, hung = await case_read(conn, window, acts, prog, late)
                if not hung:
                    ctx.count('e2e.nonreproducing_timeout', group='oracle')
            ctx.note_case(('e2e-read', window, data, repr(prog)), nontrivial=len(data) > 0)
            ctx.count('e2e_read.window_%s' % ('default' if window > 4096 else window))
            if len(data) > window:
                ctx.count('e2e_read.stream_larger_than_window')
            cls, why = judge_read(prog, data, results, hung, window)
            if why:
                ctx.failing_input(f'reading a process over loopback: {why} [window {window}, program {prog!r}]',
                                  {'kind': 'e2e_read', 'class': cls, 'window': window, 'data': list(data),
                                   'acts': js_acts(acts), 'prog': js_prog(prog), 'late': late})
            if hung:
                HANGS[0] += 1
                if HANGS[0] >= 3:
                    break
                continue
            if model_comparable(prog, len(data), window):
                ctx.count('e2e_read.compared_with_model')
                cases_read.append('(%s, %s, %s, %s)' % (cz(window), clist(prog, cs.c_op), zl(data), clist(results, cs.c_result)))
            if i < 1:
                ctx.sample({'e2e_read': {'window': window, 'bytes': len(data), 'program': repr(prog), 'results': repr(results)[:300]}})

        # ---- (b) text sessions: multi-byte characters split across packets ------------------------
        for i in range(40 if ctx.tier == 'thorough' else 12):
            text = ''.join(rng.choice(['a', 'é', '€', '\n', '😀', 'b']) for _ in range(rng.randint(2, 10)))
            raw = text.encode('utf-8')
            chunks = chop(rng, raw, rng.choice([1, 1, 2, 3]))
            sizes = [rng.choice([1, 4, 100]) for _ in range(5)]
            got, spurious, timed_out = await case_text(conn, chunks, sizes)
            ctx.note_case(('e2e-text', text, tuple(chunks)), nontrivial=True)
            ctx.count('e2e_text.sessions')
            if spurious or timed_out or got != text:
                ctx.count('e2e_text.empty_read_before_eof', group='oracle')
                report_once(ctx, 'e2e-empty-read',
                            (f'text session: read(n) returned an empty string {spurious} time(s) although EOF had not been '
                             f'reached (the server wrote {chunks!r}: a multi-byte character split across packets)')
                            if spurious else f'text session delivered {got!r} for {text!r} (timed out: {timed_out})',
                            {'kind': 'e2e_text', 'class': 'empty-chunk', 'chunks': [list(c) for c in chunks], 'sizes': sizes})

        # ---- (c) server reads stdin with breaks in between ------------------------------------------
        for i in range(120 if ctx.tier == 'thorough' else 30):
            total = rng.randint(0, 30)
            data = bytes(rng.choice(ALPHA) for _ in range(total))
            cut = sorted(rng.randint(0, total) for _ in range(rng.choice([0, 1, 1, 2])))
            prog = gen_prog(rng, total, 0, allow_odd=False)
            prog = [o for o in prog if o[0] != 'drain'] + [('read', -1)]
            cid = new_id([('prog', prog), ('exit', 0)])
            proc = await conn.create_process(cid, encoding=None)
            toks = []
            pos = 0
            try:
                for c in cut + [None]:
                    seg = data[pos:c] if c is not None else data[pos:]
                    for ch in chop(rng, seg, rng.choice([1, 3, 30])):
                        toks += list(ch)
                        proc.stdin.write(ch)
                        if rng.random() < 0.5:
                            await proc.stdin.drain()
                            await asyncio.sleep(0)
                    if c is not None:
                        pos = c
                        toks.append(('x', 7))
                        proc.send_break(7)
                proc.stdin.write_eof()
            except OSError:
                pass        # the server-side program finished (and closed the channel) before all input was sent
            try:
                await asyncio.wait_for(proc.wait(), 60)
                res = SRV_RESULTS.pop(cid, [])
            except asyncio.TimeoutError:
                res = None
            ctx.note_case(('e2e-stdin', data, tuple(cut), repr(prog)), nontrivial=bool(cut))
            ctx.count('e2e_stdin.sessions')
            if res is None or len(res) < len(prog):
                HANGS[0] += 1
                ctx.failing_input(f'server-side read program {prog!r} did not finish after EOF',
                                  {'kind': 'e2e_stdin', 'class': 'hang', 'data': list(data), 'cut': cut, 'prog': js_prog(prog)})
                continue
            # everything is delivered by the time EOF is: judge against the full token stream
            orc = cs.Oracle(0)
            orc.toks = list(toks)
            orc.eof = True
            # results that were produced before later data arrived are still consistent with the full
            # stream for the chunk-independent calls; judge only those
            if model_comparable(prog, 0, 1):
                for o, r in zip(prog, res):
                    why = orc.judge(o, r)
                    if why:
                        ctx.failing_input(f'server-side stdin read {o!r}: {why} [data {data!r}, breaks after {cut!r}]',
                                          {'kind': 'e2e_stdin', 'class': 'wrong-data', 'data': list(data), 'cut': cut,
                                           'prog': js_prog(prog)})
                        break
                ctx.count('e2e_stdin.judged')

        # ---- (d) exit status / signal with complete output -------------------------------------------
        n = 1200 if ctx.tier == 'thorough' else 120
        for i in range(n):
            window = rng.choice([256, 1024, 2 * 1024 * 1024])
            acts = []
            eofd = False
            for _ in range(rng.randint(0, 6)):
                r = rng.random()
                if r < 0.35 and not eofd:
                    acts.append(('out', bytes(rng.choice(b'xyz\n') for _ in range(rng.choice([1, 10, 300, 3000])))))
                elif r < 0.6 and not eofd:
                    acts.append(('err', bytes(rng.choice(b'EF\n') for _ in range(rng.choice([1, 10, 300, 2000])))))
                elif r < 0.7:
                    acts.append(('status', rng.choice([0, 1, 3, 255, 256 + 7])))
                elif r < 0.75:
                    acts.append(('signal',))
                elif r < 0.85 and not eofd:
                    acts.append(('eof',))
                    eofd = True
                elif r < 0.95:
                    acts.append(('yield',))
                else:
                    acts.append(('drain',))
            acts.append(rng.choice([('exit', rng.choice([0, 2, 77])), ('exit', 0), ('close',)]))
            use_run = rng.choice([True, False, 'late'])
            if use_run == 'late':
                ctx.count('e2e_exit.wait_called_late')
            got = await case_exit(conn, acts, window, use_run)
            if got is None:
                got = await case_exit(conn, acts, window, use_run)
                if got is not None:
                    ctx.count('e2e.nonreproducing_timeout', group='oracle')
            wire = []
            for a in acts:
                if a[0] == 'out':
                    wire.append('WOut ' + zl(a[1]))
                elif a[0] == 'err':
                    wire.append('WErr ' + zl(a[1]))
                elif a[0] == 'eof':
                    wire.append('WEof')
                elif a[0] == 'status':
                    wire.append('WExit ' + cz(a[1]))
                elif a[0] == 'signal':
                    wire.append('WSignal')
                elif a[0] == 'exit':
                    wire += ['WExit ' + cz(a[1]), 'WClose']
                elif a[0] == 'close':
                    wire.append('WClose')
            want_out = b''.join(a[1] for a in acts if a[0] == 'out')
            want_err = b''.join(a[1] for a in acts if a[0] == 'err')
            ctx.note_case(('e2e-exit', repr(acts)), nontrivial=len(want_out) + len(want_err) > 0)
            ctx.count('e2e_exit.sessions')
            if len(want_out) + len(want_err) > window:
                ctx.count('e2e_exit.output_larger_than_window')
            if any(a[0] in ('status', 'signal') for a in acts[:-1]) and (want_out or want_err):
                ctx.count('e2e_exit.status_sent_before_data')
            cls, why = judge_exit(acts, got, window)
            if why:
                ctx.failing_input(why, {'kind': 'e2e_exit', 'class': cls, 'acts': js_acts(acts), 'window': window,
                                        'use_run': use_run})
            if got is None:
                HANGS[0] += 1
                if HANGS[0] >= 6:
                    break
                continue
            cases_wait.append('(%s, Some (%s, %s, %s))' % (clist(wire, str), copt(got[0], cz), zl(got[1]), zl(got[2])))
            if i < 1:
                ctx.sample({'e2e_exit': {'script': repr(acts)[:300], 'exit_status': got[0], 'stdout_bytes': len(got[1])}})
        # ---- (e) drain ------------------------------------------------------------------------------
        for kind, size in (('consumed', 300000), ('closed', 4 * 1024 * 1024), ('consumed', 3000000), ('consumed', 5)):
            out = await case_drain(conn, kind, size)
            ctx.note_case(('e2e-drain', kind, size), nontrivial=True)
            ctx.count('e2e_drain.' + kind + '.' + out[0])
            bad = (kind == 'consumed' and not (out[0] == 'returned' and out[1] <= 65536)) or \
                  (kind == 'closed' and out[0] != 'raised')
            if bad:
                ctx.failing_input(f'drain() with the peer "{kind}" after writing {size} bytes: {out!r}',
                                  {'kind': 'e2e_drain', 'class': 'drain', 'peer': kind, 'size': size})
    finally:
        conn.close()
        listener.close()
        await listener.wait_closed()
    if guard.errors:
        ctx.cov['oracle']['loop_exceptions'] = guard.errors[:3]
    bad = ctx.coq_cases('e2e_read', IMPORTS, 'chk_e2e', cases_read, ty='Z * list op * bytes * list result', shard=60)
    if bad:
        ctx.broke('correspondence:e2e_read', f'{len(bad)} of {len(cases_read)} differ; first: {cases_read[bad[0]][:1500]}')
    bad = ctx.coq_cases('wait', IMPORTS, 'chk_wait', cases_wait, ty='list wire * option (option Z * bytes * bytes)', shard=40)
    if bad:
        ctx.broke('correspondence:wait', f'{len(bad)} of {len(cases_wait)} differ; first: {cases_wait[bad[0]][:1500]}')
    d = ctx.cov['distribution']
    for key, need in (('e2e_read.stream_larger_than_window', 10), ('e2e_read.compared_with_model', 20),
                      ('e2e_read.started_after_window_filled', 3),
                      ('e2e_exit.output_larger_than_window', 5), ('e2e_exit.status_sent_before_data', 5),
                      ('e2e_stdin.judged', 5)):
        if d.get(key, 0) < need:
            ctx.broke('vacuity:' + key, f'only {d.get(key, 0)} cases (need {need})')


_reported = set()


def report_once(ctx, key, what, replay):
    if key in _reported:
        return
    _reported.add(key)
    ctx.failing_input(what, replay)


def js_acts(acts):
    out = []
    for a in acts:
        out.append([a[0]] + [list(x) if isinstance(x, (bytes, bytearray)) else (js_prog(x) if a[0] == 'prog' else x) for x in a[1:]])
    return out


class KeepBytesIO(io.BytesIO):
    def __init__(self, *a):
        super().__init__(*a)
        self.was_closed = False

    def close(self):
        self.was_closed = True


def _read_fd_all(fd):
    out = []
    while True:
        try:
            d = os.read(fd, 65536)
        except OSError:
            break
        if not d:
            break
        out.append(d)
    os.close(fd)
    return b''.join(out)


def _read_sock_all(sock):
    out = []
    while True:
        d = sock.recv(65536)
        if not d:
            break
        out.append(d)
    sock.close()
    return b''.join(out)


def spawn_thread(loop, fn, *args):
    """run a blocking function in a daemon thread (a thread stuck on a descriptor that never sees EOF must
    not keep the check from finishing); returns an asyncio future"""
    import threading
    fut = loop.create_future()

    def done(r, e):
        if not fut.done():
            if e is None:
                fut.set_result(r)
            else:
                fut.set_exception(e)

    def run():
        try:
            r, e = fn(*args), None
        except Exception as exc:        # noqa
            r, e = None, exc
        try:
            loop.call_soon_threadsafe(done, r, e)
        except RuntimeError:
            pass
    threading.Thread(target=run, daemon=True).start()
    return fut


class KeepStringIO(io.StringIO):
    def __init__(self, *a):
        super().__init__(*a)
        self.was_closed = False

    def close(self):
        self.was_closed = True


class SlowAsyncFile:
    """aiofiles-style object: coroutine read/write/close, each taking k loop turns"""

    def __init__(self, k, data=b''):
        self.k = k
        self.buf = b''
        self.src = data
        self.closed = False

    async def _slow(self):
        for _ in range(self.k):
            await asyncio.sleep(0)

    async def write(self, d):
        await self._slow()
        self.buf += bytes(d)
        return len(d)

    async def read(self, n=-1):
        await self._slow()
        if n is None or n < 0:
            n = len(self.src)
        r, self.src = self.src[:n], self.src[n:]
        return r

    async def close(self):
        await self._slow()
        self.closed = True


class RecTransport(asyncio.Transport):
    """transport under a real asyncio.StreamWriter: records what is written and keeps drain() waiting for k
    loop turns after every write (a consumer slower than the channel, without any wall clock)"""

    def __init__(self, loop, k):
        super().__init__()
        self._loop = loop
        self.k = k
        self.buf = b''
        self.eof = False
        self.closed = False
        self.protocol = None
        self._pending = 0

    def write(self, data):
        self.buf += bytes(data)
        if self.k and self.protocol is not None:
            self._pending += 1
            if self._pending == 1:
                self.protocol.pause_writing()
            self._loop.call_soon(self._tick, self.k)

    def _tick(self, left):
        if left > 1:
            self._loop.call_soon(self._tick, left - 1)
            return
        self._pending -= 1
        if self._pending == 0:
            self.protocol.resume_writing()

    def can_write_eof(self):
        return True

    def write_eof(self):
        self.eof = True

    def is_closing(self):
        return self.closed

    def close(self):
        self.closed = True

    def get_extra_info(self, name, default=None):
        return default


def make_stream_writer(loop, k):
    tr = RecTransport(loop, k)
    rd = asyncio.StreamReader()
    proto = asyncio.StreamReaderProtocol(rd)
    proto.connection_made(tr)
    tr.protocol = proto
    return asyncio.StreamWriter(tr, proto, rd, loop), tr


class ThreadSink:
    """reads a pipe / socket end in a daemon thread, slowly; result() blocks the calling (event loop) thread,
    so whatever arrives after it was called had already been written by then"""

    def __init__(self, reader, obj, delay):
        import threading
        self.chunks = []
        self.done = threading.Event()

        def run():
            import time
            try:
                while True:
                    d = reader(obj)
                    if not d:
                        break
                    self.chunks.append(d)
                    if delay:
                        time.sleep(delay)
            except OSError:
                pass
            self.done.set()
        threading.Thread(target=run, daemon=True).start()

    def result(self, timeout=5):
        """(bytes received, EOF seen).  Without EOF the thread is given the timeout to pick up what is already
        in the kernel buffer."""
        ok = self.done.wait(timeout)
        return b''.join(self.chunks), ok


OUT_KINDS = ['path', 'purepath', 'fileobj', 'textfileobj', 'bytesio', 'stringio', 'asyncfile', 'streamwriter', 'pipe',
             'socket', 'process', 'devnull', 'pipe_default', 'stderr2stdout', 'late_attach']
IN_KINDS = ['stdin_path', 'stdin_fileobj', 'stdin_bytesio', 'stdin_asyncfile', 'stdin_streamreader', 'stdin_pipe',
            'stdin_socket', 'stdin_process', 'stdin_devnull', 'stdin_pipe_default']
REDIR_KINDS = OUT_KINDS + IN_KINDS
ASYNC_TARGETS = ('asyncfile', 'streamwriter', 'pipe', 'socket')


LAST_INFO = {}


async def redirect_case(conn, tmp, rng, kind, size, window, piece, api, stream, recv_eof, slow, info=LAST_INFO):
    """One redirection over loopback.  Everything is judged at the moment wait() / run() / communicate()
    returns, without yielding to the event loop in between.  Returns a description of the deviation or None."""
    import pathlib
    import socket
    import asyncssh
    loop = asyncio.get_event_loop()
    text = kind in ('textfileobj', 'stringio')
    if text:
        data = bytes(rng.choice(b'abc \n') for _ in range(size))
    else:
        data = bytes(rng.getrandbits(8) for _ in range(size))
    enc = 'utf-8' if text else None
    tag = 'err' if stream == 'stderr' else 'out'

    def out_script(d):
        acts = []
        for c in chop(rng, d, piece):
            acts += [(tag, c), ('drain',)]
        return acts + [('exit', 7)]

    async def finish(cid, **kw):
        """the three APIs that report the exit status"""
        if api == 'run':
            res = await asyncio.wait_for(conn.run(cid, encoding=enc, window=window, **kw), 60)
            return res.exit_status, res.stdout, res.stderr
        proc = await conn.create_process(cid, encoding=enc, window=window, **kw)
        info['closed_before_attach_returned'] = proc.is_closing() and proc.exit_status is not None
        if api == 'wait':
            res = await asyncio.wait_for(proc.wait(), 60)
            return res.exit_status, res.stdout, res.stderr
        o, e = await asyncio.wait_for(proc.communicate(), 60)
        return proc.exit_status, o, e

    got = None
    closed = None           # None = not observable / not applicable
    status = None
    kwname = stream
    info.clear()
    if kind in ('path', 'purepath'):
        path = os.path.join(tmp, 'o%d' % _SEQ[0])
        status, _, _ = await finish(new_id(out_script(data)), **{kwname: path if kind == 'path' else pathlib.PurePath(path)})
        got = open(path, 'rb').read()
    elif kind in ('fileobj', 'textfileobj'):
        path = os.path.join(tmp, 'f%d' % _SEQ[0])
        f = open(path, 'w' if text else 'wb')
        status, _, _ = await finish(new_id(out_script(data)), recv_eof=recv_eof, **{kwname: f})
        closed = f.closed
        if not f.closed:
            f.flush()
        got = open(path, 'rb').read()
        if not f.closed:
            f.close()
    elif kind in ('bytesio', 'stringio'):
        f = KeepStringIO() if text else KeepBytesIO()
        status, _, _ = await finish(new_id(out_script(data)), recv_eof=recv_eof, **{kwname: f})
        closed = f.was_closed
        got = f.getvalue().encode() if text else f.getvalue()
    elif kind == 'asyncfile':
        f = SlowAsyncFile(slow)
        status, _, _ = await finish(new_id(out_script(data)), recv_eof=recv_eof, **{kwname: f})
        closed = f.closed
        got = f.buf
    elif kind == 'streamwriter':
        wr, tr = make_stream_writer(loop, slow)
        status, _, _ = await finish(new_id(out_script(data)), recv_eof=recv_eof, **{kwname: wr})
        closed = tr.eof
        got = tr.buf
    elif kind in ('pipe', 'socket'):
        if kind == 'pipe':
            r, w = os.pipe()
            sink = ThreadSink(lambda fd: os.read(fd, 4096), r, 0.001 if slow else 0)
            tgt = w
        else:
            sa, sb = socket.socketpair()
            sink = ThreadSink(lambda s: s.recv(4096), sb, 0.001 if slow else 0)
            tgt = sa
        status, _, _ = await finish(new_id(out_script(data)), **{kwname: tgt})
        # the loop thread blocks here: only what had been written when the call returned can arrive
        got, ended = sink.result()
        closed = ended
        if not ended:
            await asyncio.sleep(0.2)        # let the pending close happen so that nothing is left behind
        if kind == 'pipe':
            try:
                os.close(r)
            except OSError:
                pass
        else:
            sb.close()
    elif kind == 'process':
        cat = await conn.create_process(new_id([('cat',), ('exit', 0)]), encoding=None)
        status, _, _ = await finish(new_id(out_script(data)), **{kwname: cat.stdin})
        res = await asyncio.wait_for(cat.wait(), 60)
        got = bytes(res.stdout)
    elif kind == 'devnull':
        status, o, e = await finish(new_id(out_script(data)), **{kwname: asyncssh.DEVNULL})
        mine = o if stream == 'stdout' else e
        got = data if mine in (b'', None) else b'!' + bytes(mine)
    elif kind == 'pipe_default':
        status, o, e = await finish(new_id(out_script(data)), **{kwname: asyncssh.PIPE})
        got = bytes(o if stream == 'stdout' else e)
    elif kind == 'stderr2stdout':
        acts = []
        for c in chop(rng, data, piece):
            acts += [(rng.choice(['out', 'err']), c), ('drain',)]
        acts.append(('exit', 7))
        status, o, e = await finish(new_id(acts), stderr=asyncssh.STDOUT)
        got = bytes(o)
        if e not in (b'', None):
            return 'stderr was not empty although redirected to stdout'
    elif kind == 'late_attach':
        proc = await conn.create_process(new_id(out_script(data)), encoding=None, window=window)
        await asyncio.sleep(0.05)
        # (attaching an asynchronously written target to a channel that has already closed raises
        # AssertionError from channel.get_connection(); only synchronously written targets are used here)
        f = KeepBytesIO()
        await proc.redirect(**{kwname: f}, recv_eof=recv_eof)
        res = await asyncio.wait_for(proc.wait(), 60)
        status = res.exit_status
        closed = f.was_closed
        got = f.getvalue()
    else:
        # ---- sources for stdin: the server echoes stdin to stdout ("cat"), the echo is collected
        src_closed = None
        if kind == 'stdin_path':
            path = os.path.join(tmp, 'i%d' % _SEQ[0])
            open(path, 'wb').write(data)
            src = path
        elif kind == 'stdin_fileobj':
            path = os.path.join(tmp, 'i%d' % _SEQ[0])
            open(path, 'wb').write(data)
            src = open(path, 'rb')
        elif kind == 'stdin_bytesio':
            src = io.BytesIO(data)
        elif kind == 'stdin_asyncfile':
            src = SlowAsyncFile(slow, data)
        elif kind == 'stdin_streamreader':
            src = asyncio.StreamReader()

            async def feeder(rd=src):
                for c in chop(rng, data, piece):
                    rd.feed_data(c)
                    for _ in range(slow):
                        await asyncio.sleep(0)
                rd.feed_eof()
            loop.create_task(feeder())
        elif kind in ('stdin_pipe', 'stdin_socket'):
            if kind == 'stdin_pipe':
                r, w = os.pipe()
                src = r

                def feed():
                    for c in chop(rng, data, 4096):
                        os.write(w, c)
                    os.close(w)
            else:
                sa, sb = socket.socketpair()
                src = sa

                def feed():
                    sb.sendall(data)
                    sb.shutdown(socket.SHUT_WR)
            spawn_thread(loop, feed)
        elif kind == 'stdin_process':
            p0 = await conn.create_process(new_id([('out', c) for c in chop(rng, data, piece)] + [('exit', 0)]), encoding=None)
            src = p0.stdout
        elif kind == 'stdin_devnull':
            src = asyncssh.DEVNULL
            data = b''
        else:
            src = asyncssh.PIPE
        cid = new_id([('cat',), ('exit', 7)])
        if kind == 'stdin_pipe_default':
            if api == 'run':
                res = await asyncio.wait_for(conn.run(cid, encoding=None, window=window, input=data), 60)
                status, o = res.exit_status, res.stdout
            else:
                proc = await conn.create_process(cid, encoding=None, window=window)
                o, _ = await asyncio.wait_for(proc.communicate(data if data else None), 60)
                if not data:
                    proc.stdin.write_eof()
                    o2, _ = await asyncio.wait_for(proc.communicate(), 60)
                    o = o + o2
                status = proc.exit_status
        else:
            status, o, _ = await finish(cid, stdin=src)
        got = bytes(o)
        if kind == 'stdin_fileobj':
            closed = src.closed
    if got != data:
        n = 0
        while n < min(len(got), len(data)) and got[n] == data[n]:
            n += 1
        return (f'when {api}() returned exit status {status!r} the target held {len(got)} of {len(data)} bytes '
                f'(first {n} agree)')
    if status != 7 and kind not in ('process',):
        return f'exit status {status!r} reported, the server sent 7'
    if closed is not None:
        want_closed = recv_eof if kind in ('fileobj', 'textfileobj', 'bytesio', 'stringio', 'asyncfile',
                                            'streamwriter', 'late_attach') else True
        if closed != want_closed:
            return (f'when {api}() returned, all data had been copied but the target was '
                    f'{"closed" if closed else "not closed"} (recv_eof={recv_eof})')
    return None


async def e2e_redirect(ctx, tmp):
    rng = ctx.rng
    listener, conn = await sshutil.loopback(srv_kw={'process_factory': _server_process, 'encoding': None})
    rounds = 10 if ctx.tier == 'thorough' else 2
    hangs = 0
    try:
        for rnd in range(rounds):
            for kind in REDIR_KINDS:
                if hangs >= 3:
                    ctx.count('redirect_e2e.skipped_after_3_hangs')
                    continue
                big = kind in ASYNC_TARGETS or kind == 'late_attach' or kind.startswith('stdin_')
                size = rng.choice([200000, 60000, 3000] if big else [0, 5, 3000, 70000])
                if rnd == 0 and big:
                    size = 200000 if kind in ('pipe', 'socket') else 60000
                if kind in ('stdin_pipe', 'pipe', 'stdin_socket', 'socket') and size == 0:
                    size = 7
                window = rng.choice([1024, 2 * 1024 * 1024])
                piece = rng.choice([100, 1000, 9000])
                api = ['wait', 'run', 'communicate'][(rnd + REDIR_KINDS.index(kind)) % 3]
                if kind in ('pipe', 'socket') and api == 'run':
                    api = 'wait'        # whether the channel closed before the target was attached must be observable
                stream = 'stderr' if (kind in OUT_KINDS and kind not in ('stderr2stdout',) and rng.random() < 0.3) else 'stdout'
                recv_eof = not (rnd % 2 == 1 and rng.random() < 0.5)
                slow = rng.choice([3, 10]) if rnd == 0 else rng.choice([0, 1, 3, 10])
                params = {'target': kind, 'size': size, 'window': window, 'piece': piece, 'api': api,
                          'stream': stream, 'recv_eof': recv_eof, 'slow': slow, 'rseed': rng.getrandbits(32)}
                import random
                try:
                    why = await redirect_case(conn, tmp, random.Random(params['rseed']), kind, size, window, piece, api,
                                              stream, recv_eof, slow)
                except asyncio.TimeoutError:
                    why = 'the redirected process did not finish'
                    hangs += 1
                except (KeyError, AttributeError, TypeError, AssertionError, IndexError, RuntimeError) as e:
                    why = f'setting up or running the redirection raised {type(e).__name__}({e})'
                ctx.note_case(('redir-e2e',) + tuple(sorted(params.items())), nontrivial=size > 0)
                ctx.count('redirect_e2e.' + kind)
                ctx.count('redirect_e2e.api.' + api)
                if kind in ASYNC_TARGETS and slow:
                    ctx.count('redirect_e2e.slow_async_target')
                if not recv_eof:
                    ctx.count('redirect_e2e.recv_eof_false')
                if why:
                    if 'not closed' in why and kind == 'asyncfile':
                        cls = 'async-close-late'
                    elif kind in ('pipe', 'socket') and LAST_INFO.get('closed_before_attach_returned'):
                        cls = 'attached-after-close'
                    else:
                        cls = 'redirect'
                    params['class'] = cls
                    params['kind'] = 'redirect_e2e'
                    report_once(ctx, 'redirect:' + cls + ':' + kind,
                                f'redirection of {stream} to/from {kind}: {why} [{params!r}]', params)
    finally:
        conn.close()
        listener.close()
        await listener.wait_closed()
    d = ctx.cov['distribution']
    for key, need in (('redirect_e2e.slow_async_target', 4), ('redirect_e2e.api.run', 5), ('redirect_e2e.api.wait', 5),
                      ('redirect_e2e.api.communicate', 5)):
        if d.get(key, 0) < need and hangs < 3:
            ctx.broke('vacuity:' + key, f'only {d.get(key, 0)} cases (need {need})')


def stage_redirect_e2e(ctx):
    import shutil
    import tempfile
    tmp = tempfile.mkdtemp(prefix='c19-', dir='/var/tmp')
    try:
        sshutil.run(e2e_redirect(ctx, tmp), timeout=3000)
    finally:
        shutil.rmtree(tmp, ignore_errors=True)


STATEFUL_ENCODINGS = ['utf-16', 'utf-32', 'utf-8-sig']


async def case_textenc(enc, pieces, cuts, mode):
    """text session with an encoding that has stream state, several writes on both sides.
    pieces: what the client writes to stdin (one write each); the server echoes every line with several
    writes.  mode 'wait': compare wait().stdout/.stderr; mode 'readline': read the echo line by line."""
    listener, conn = await sshutil.loopback(srv_kw={'process_factory': _server_process, 'encoding': enc})
    try:
        proc = await conn.create_process(new_id([('techo', cuts), ('exit', 0)]), encoding=enc)
        for pc in pieces:
            proc.stdin.write(pc)
            await proc.stdin.drain()
            await asyncio.sleep(0)
        proc.stdin.write_eof()
        if mode == 'wait':
            res = await asyncio.wait_for(proc.wait(), 60)
            return res.stdout, res.stderr
        lines = []
        while True:
            ln = await asyncio.wait_for(proc.stdout.readline(), 60)
            if not ln:
                break
            lines.append(ln)
        err = await asyncio.wait_for(proc.stderr.read(), 60)
        return lines, err
    finally:
        conn.close()
        listener.close()
        await listener.wait_closed()


def judge_textenc(pieces, mode, got):
    text = ''.join(pieces)
    out, err = got
    if mode == 'wait':
        if out != text or err != text:
            return f'wait() returned stdout {out!r} and stderr {err!r} for the text {text!r}'
    else:
        want = text.splitlines(True)
        if out != want or err != text:
            return f'readline() returned {out!r} (expected {want!r}), stderr {err!r}'
    return None


async def case_pipeline(conn, out, err, src_stream, how, buffered, piece):
    """process-to-process redirection.  The source writes `out` to stdout and `err` to stderr; its src_stream is
    routed into a sink process that echoes stdin to stdout.  how = 'sink_stdin' (sink created with
    stdin=src.<stream>) or 'src_target' (source created with <stream>=sink.stdin).  buffered = the source's
    output is already in its receive buffer when the redirect is installed.
    Returns (sink output, what stays readable at the source on stdout, on stderr)."""
    import random
    r = random.Random(len(out) * 7 + len(err))
    acts = []
    co, ce = chop(r, out, piece), chop(r, err, piece)
    while co or ce:
        if co and (not ce or r.random() < 0.5):
            acts += [('out', co.pop(0)), ('drain',)]
        else:
            acts += [('err', ce.pop(0)), ('drain',)]
    acts.append(('exit', 0))
    if how == 'sink_stdin':
        src = await conn.create_process(new_id(acts), encoding=None)
        if buffered:
            await asyncio.sleep(0.05)
        sink = await conn.create_process(new_id([('cat',), ('exit', 0)]), encoding=None,
                                         stdin=src.stdout if src_stream == 'stdout' else src.stderr)
    else:
        sink = await conn.create_process(new_id([('cat',), ('exit', 0)]), encoding=None)
        if buffered:
            src = await conn.create_process(new_id(acts), encoding=None)
            await asyncio.sleep(0.05)
            await src.redirect(**{src_stream: sink.stdin})
        else:
            src = await conn.create_process(new_id(acts), encoding=None, **{src_stream: sink.stdin})
    sres = await asyncio.wait_for(sink.wait(), 60)
    res = await asyncio.wait_for(src.wait(), 60)
    return bytes(sres.stdout), bytes(res.stdout or b''), bytes(res.stderr or b'')


def judge_pipeline(out, err, src_stream, got):
    sunk, left_out, left_err = got
    routed, other = (out, err) if src_stream == 'stdout' else (err, out)
    left_routed, left_other = (left_out, left_err) if src_stream == 'stdout' else (left_err, left_out)
    if sunk != routed:
        return (f'the sink received {len(sunk)} bytes, the routed {src_stream} stream had {len(routed)}'
                + (' (it received the other stream)' if sunk == other and other else ''))
    if left_routed != b'':
        return f'{len(left_routed)} bytes of the routed {src_stream} stream were also left at the source'
    if left_other != other:
        return f'the stream that was not routed kept {len(left_other)} of its {len(other)} bytes at the source'
    return None


WRITE_LIMITS = [None, (0, None), (4096, 0), (4096, 4096), (1, None), (3, None), (1000, 100), (200000, 50000)]


async def case_writer(conn, limits, size, nwrites, slow, via):
    """writer side: write() more than the peer's window under the given write-buffer limits, then drain().
    via 'drain': stdin.write + drain(); via 'redirect': stdin redirected from a BytesIO after the limits were
    set.  The server consumes everything (slowly when slow > 0) and reports the byte count.
    Returns (outcome, bytes left in the write buffer when drain returned, low-water mark, count seen by server)."""
    cid = new_id([('slowcat', 1024 if slow else 65536, slow), ('exit', 0)])
    proc = await conn.create_process(cid, encoding=None)
    if limits is not None:
        proc.channel.set_write_buffer_limits(*limits)
    if limits is None:
        high, low = 65536, 16384
    else:
        high, lw = limits
        low = lw if lw is not None else high // 4
    data = b'w' * size
    left = None         # worst excess over the applicable mark seen when drain() returned
    prev = 0
    try:
        if via == 'drain':
            step = max(1, size // nwrites)
            for i in range(0, size, step):
                proc.stdin.write(data[i:i + step])
                await _wait_progress(proc.stdin.drain(), proc.channel.get_write_buffer_size)
                n = proc.channel.get_write_buffer_size()
                # writing was paused iff the buffer went above the high-water mark; it resumes at the low-water mark
                bound = low if prev + len(data[i:i + step]) > high else high
                prev = n
                left = n - bound if left is None else max(left, n - bound)
            proc.stdin.write_eof()
        else:
            await proc.redirect(stdin=io.BytesIO(data))
        res = await _wait_progress(proc.wait(), proc.channel.get_write_buffer_size)
        return 'ok', left, low, bytes(res.stdout)
    except asyncio.TimeoutError:
        proc.close()
        return 'hang', left, low, None
    except OSError as e:
        proc.close()
        return 'raised ' + type(e).__name__, left, low, None


async def _wait_progress(aw, progress, idle=25.0, cap=900.0):
    """Await `aw`, giving up (asyncio.TimeoutError) only when `progress()` has not changed for `idle` seconds:
    robust on a loaded machine, still bounded for a genuine hang."""
    import time as _t
    fut = asyncio.ensure_future(aw)
    last = progress()
    t0 = t_last = _t.monotonic()
    while not fut.done():
        await asyncio.wait([fut], timeout=0.2)
        cur, now = progress(), _t.monotonic()
        if cur != last:
            last, t_last = cur, now
        elif now - t_last > idle or now - t0 > cap:
            fut.cancel()
            raise asyncio.TimeoutError
    return fut.result()


def judge_writer(size, got):
    outcome, left, low, seen = got
    if outcome == 'hang':
        return 'drain()/wait() did not return although the peer consumed everything that was sent'
    if outcome != 'ok':
        return 'writing ' + outcome
    if seen != b'%d' % size:
        return f'the peer received {seen!r} bytes of {size}'
    if left is not None and left > 0:
        return f'drain() returned with the write buffer {left} bytes above the mark at which writing resumes'
    return None


async def case_reredirect(conn, size, piece, slow, delay):
    """stdout goes to a slow asynchronously written target, which pauses the channel; while it is paused stdout is
    redirected again to an eagerly written buffer.  Returns (first target bytes, second target bytes) or None."""
    data = bytes((i * 7) % 251 for i in range(size))
    acts = []
    for i in range(0, size, piece):
        acts += [('out', data[i:i + piece]), ('drain',)]
    acts.append(('exit', 0))
    if slow:
        first = SlowAsyncFile(slow)
        proc = await conn.create_process(new_id(acts), encoding=None, stdout=first)
    else:
        # a pipe nobody reads yet: it fills up, the pipe transport pauses the channel, and nothing but the
        # re-redirection can take that pause away
        r, w = os.pipe()
        proc = await conn.create_process(new_id(acts), encoding=None, stdout=w, window=32768)
    await asyncio.sleep(delay)
    second = KeepBytesIO()
    await proc.redirect(stdout=second)
    if not slow:
        # the old pipe is still not read: only the re-redirection itself can have taken its pause away
        async def _closed():
            while not second.was_closed:
                await asyncio.sleep(0.01)
        try:
            await _wait_progress(_closed(), lambda: len(second.getvalue()))
        except asyncio.TimeoutError:
            proc.close()
            os.close(r)
            return data, None
    sink = None if slow else ThreadSink(lambda fd: os.read(fd, 65536), r, 0)
    try:
        await _wait_progress(proc.wait(), lambda: (len(first.buf) if slow else 0, len(second.getvalue())))
    except asyncio.TimeoutError:
        proc.close()
        return data, None
    if slow:
        return data, (first.buf, second.getvalue())
    got1, _ = sink.result()
    try:
        os.close(r)
    except OSError:
        pass
    return data, (got1, second.getvalue())


def judge_reredirect(data, got, pipe_first=False):
    if got is None:
        return 'the process never finished after stdout was redirected a second time while the first target had it paused'
    a, b = got
    if a + b != data:
        return (f'first target got {len(a)} bytes, second {len(b)}, together they are not the {len(data)} bytes sent '
                f'(prefix ok: {data.startswith(a)})')
    return None


async def e2e_more(ctx):
    rng = ctx.rng
    # ---- (f) stateful encodings, several writes on both sides ---------------------------------------
    for i in range(18 if ctx.tier == 'thorough' else 6):
        enc = STATEFUL_ENCODINGS[i % 3]
        text = ''.join(rng.choice(['a', 'é', '€', '\n', 'b', 'ß', '\n']) for _ in range(rng.randint(4, 14))) + '\n'
        pieces = [p.decode('latin-1') for p in chop(rng, text.encode('utf-8'), 3)]
        pieces = []
        pos = 0
        while pos < len(text):
            k = rng.randint(1, 4)
            pieces.append(text[pos:pos + k])
            pos += k
        cuts = [rng.randint(0, 2) for _ in range(rng.randint(1, 2))]
        mode = 'wait' if i % 2 == 0 else 'readline'
        try:
            got = await case_textenc(enc, pieces, cuts, mode)
            why = judge_textenc(pieces, mode, got)
        except asyncio.TimeoutError:
            why = 'the session did not finish'
        ctx.note_case(('e2e-textenc', enc, tuple(pieces), tuple(cuts), mode), nontrivial=len(pieces) > 1)
        ctx.count('e2e_textenc.' + enc)
        if why:
            report_once(ctx, 'textenc:' + enc, f'text session with encoding {enc}, {len(pieces)} writes to stdin, echo in '
                        f'{len(cuts) + 1} writes per line: {why}',
                        {'kind': 'e2e_textenc', 'class': 'encoding', 'enc': enc, 'pieces': pieces, 'cuts': cuts, 'mode': mode})
    # ---- (h) writer side: write-buffer limits, drain, peers with a small window ----------------------------
    listener, conn = await sshutil.loopback(srv_kw={'process_factory': _server_process, 'encoding': None, 'window': 16384})
    hangs = 0
    try:
        k = 0
        for rnd in range(3 if ctx.tier == 'thorough' else 1):
            for limits in WRITE_LIMITS:
                for via in ('drain', 'redirect'):
                    if hangs >= 2:
                        ctx.count('e2e_writer.skipped_after_2_hangs')
                        continue
                    k += 1
                    size = rng.choice([100000, 300000]) if rnd else (300000 if k % 2 else 100000)
                    slow = rng.choice([0, 2]) if rnd else k % 3 == 0 and 2 or 0
                    nwrites = rng.choice([1, 3, 10])
                    got = await case_writer(conn, limits, size, nwrites, slow, via)
                    why = judge_writer(size, got)
                    ctx.note_case(('e2e-writer', limits, size, nwrites, slow, via), nontrivial=True)
                    ctx.count('e2e_writer.limits_%s' % ('default' if limits is None else '%s_%s' % limits))
                    if got[0] == 'hang':
                        hangs += 1
                    if why:
                        report_once(ctx, 'writer:%r:%s' % (limits, via),
                                    f'write buffer limits {limits!r}, {size} bytes in {nwrites} write(s) via {via}, '
                                    f'peer window 16384, peer {"slow" if slow else "fast"}: {why}',
                                    {'kind': 'e2e_writer', 'class': 'writer', 'limits': list(limits) if limits else None,
                                     'size': size, 'nwrites': nwrites, 'slow': slow, 'via': via})
        # ---- (i) redirecting a stream again while its previous target has the channel paused ---------------
        for rnd in range(3 if ctx.tier == 'thorough' else 1):
            for size, piece, slow in ((rng.choice([200000, 400000]), 1000, rng.choice([20, 60])), (400000, 4000, 0)):
              if hangs >= 3:
                break
              data, got = await case_reredirect(conn, size, piece, slow, 0.05)
              why = judge_reredirect(data, got, pipe_first=not slow)
              if got is not None and not slow and got[0] + got[1] != data:
                  ctx.count('e2e_reredirect.pipe_variant_bytes_missing', len(data) - len(got[0]) - len(got[1]), group='oracle')
              ctx.note_case(('e2e-reredirect', size, piece, slow), nontrivial=True)
              ctx.count('e2e_reredirect.sessions')
              if got is not None and got[0] and got[1]:
                  ctx.count('e2e_reredirect.both_targets_got_data')
              if got is None:
                  hangs += 1
              if why:
                  report_once(ctx, 'reredirect:%s' % bool(slow), f're-redirection of stdout ({size} bytes, first target takes {slow} loop turns '
                              f'per write): {why}',
                              {'kind': 'e2e_reredirect', 'class': 'reredirect-hang' if got is None else 'reredirect-lost',
                               'size': size, 'piece': piece, 'slow': slow})
    finally:
        conn.close()
        listener.close()
        await listener.wait_closed()
    # ---- (g) process-to-process pipelines -------------------------------------------------------------
    listener, conn = await sshutil.loopback(srv_kw={'process_factory': _server_process, 'encoding': None})
    try:
        combos = [(s, h, b) for s in ('stdout', 'stderr') for h in ('sink_stdin', 'src_target') for b in (True, False)]
        for rnd in range(4 if ctx.tier == 'thorough' else 1):
            for src_stream, how, buffered in combos:
                out = bytes(rng.choice(b'oO0') for _ in range(rng.choice([1, 50, 3000, 40000])))
                err = bytes(rng.choice(b'eE3') for _ in range(rng.choice([1, 50, 3000, 40000])))
                piece = rng.choice([100, 5000])
                try:
                    got = await case_pipeline(conn, out, err, src_stream, how, buffered, piece)
                    why = judge_pipeline(out, err, src_stream, got)
                except (KeyError, AttributeError, TypeError, AssertionError, IndexError, RuntimeError) as e:
                    why = f'setting up or running the pipeline raised {type(e).__name__}({e})'
                except asyncio.TimeoutError:
                    why = 'the pipeline did not finish'
                ctx.note_case(('e2e-pipeline', src_stream, how, buffered, len(out), len(err), piece), nontrivial=True)
                ctx.count('e2e_pipeline.%s.%s.%s' % (src_stream, how, 'buffered' if buffered else 'live'))
                if why:
                    report_once(ctx, 'pipeline:%s:%s:%s' % (src_stream, how, buffered),
                                f'pipeline source.{src_stream} -> sink.stdin installed via {how}, output '
                                f'{"already buffered" if buffered else "not yet received"}: {why}',
                                {'kind': 'e2e_pipeline', 'class': 'pipeline', 'out': list(out), 'err': list(err),
                                 'src_stream': src_stream, 'how': how, 'buffered': buffered, 'piece': piece})
    finally:
        conn.close()
        listener.close()
        await listener.wait_closed()


def stage_e2e(ctx):
    import logging
    logging.getLogger('asyncio').setLevel(logging.ERROR)    # teardown noise of closed sockets
    sshutil.run(e2e_all(ctx), timeout=3000)
    sshutil.run(e2e_more(ctx), timeout=1500)


def run(ctx):
    ctx.cov['rule'] = (
        'stream level: byte streams over the alphabet {a, b, newline, comma, semicolon} cut into chunks of 1-30 bytes '
        '(hostile cases add empty chunks, data after EOF, empty separators), break/soft-EOF exceptions at random '
        'positions, EOF / connection_lost endings, windows 0, 3-12, 64, consumer turns between deliveries with '
        'synchronous deliveries inside resume_reading, programs of 1-5 read/readexactly/readuntil/readline/drain '
        'calls; a case is non-trivial when at least two chunks were delivered and at least one call returned; '
        'distinct = distinct (window, program, schedule)')
    ctx.cov['trusted_base'] += [
        'Python re (leftmost match, ordered alternation of escaped literals) is modelled by Model/Stream.v search '
        'and tied by the correspondence; compiled-regex separators are not modelled',
        'the stub channel and the hand-stepped consumer coroutine stand for the channel and the event loop at the '
        'stream level; real channels and loops are exercised by the end-to-end stage only',
        'one data type per modelled session; cancellation of a pending read (wait_for timeout) is not modelled',
        'end-to-end stages run over real loopback TCP: arrival timing is not controlled, so only results that the '
        'theorems show to be timing-independent are compared with the model; a 60 s wall-clock guard detects hangs and '
        'a hang is reported only when it reproduces on a second run',
        'asynchronously written redirect targets: the queue model (Model/Stream.v astep) is tied to process.py only by the '
        'end-to-end oracle evaluated at the moment wait()/run()/communicate() return, not by a schedule-level correspondence',
        'process level (wait/run, redirection, drain) is modelled abstractly (Model/Stream.v proc_step, redir_step, '
        'drain_run); SSHChannel flow control itself is the subject of C07/C08',
    ]
    ctx.prove()
    stage_stream(ctx)
    stage_redirect_stub(ctx)
    stage_e2e(ctx)
    stage_redirect_e2e(ctx)


def unjs_acts(js):
    out = []
    for a in js:
        if a[0] == 'prog':
            out.append(('prog', unjs_prog(a[1])))
        else:
            out.append(tuple([a[0]] + [bytes(x) if isinstance(x, list) else x for x in a[1:]]))
    return out


def replay(rp):
    core.setup_paths()
    kind = rp.get('kind')
    if kind == 'stream':
        obs, devs = cs.execute(rp['limit'], unjs_prog(rp['prog']), unjs_sched(rp['sched']))
        print('results:', obs[0])
        for idx, why in devs:
            print('deviation at call', idx, ':', why)
        return 1 if devs else 0
    if kind == 'redirect_stub':
        evs = [tuple([e[0]] + [bytes(x) if isinstance(x, list) else x for x in e[1:]]) for e in rp['events']]
        got = run_redirect(evs)
        k = [j for j, e in enumerate(evs) if e[0] == 'setw']
        want = b''.join(e[1] for e in evs if e[0] == 'data')
        have = b''.join(x[1] for x in got if x[0] == 'data')
        eof_wanted = ('eof',) in evs and k and evs[k[0]][1]
        bad = bool(k) and (want != have or (('eof',) in got) != bool(eof_wanted))
        print('target received', got)
        return 1 if bad else 0
    if kind in ('e2e_text', 'e2e_read', 'e2e_exit', 'e2e_drain'):
        import logging
        logging.getLogger('asyncio').setLevel(logging.ERROR)

        async def go():
            listener, conn = await sshutil.loopback(srv_kw={'process_factory': _server_process, 'encoding': None})
            try:
                if kind == 'e2e_text':
                    chunks = [bytes(c) for c in rp['chunks']]
                    text = b''.join(chunks).decode('utf-8')
                    got, spurious, timed_out = await case_text(conn, chunks, rp.get('sizes') or [4])
                    print('received', repr(got), 'empty reads before EOF:', spurious, 'timed out:', timed_out)
                    return 1 if (spurious or timed_out or got != text) else 0
                if kind == 'e2e_read':
                    prog = unjs_prog(rp['prog'])
                    acts = unjs_acts(rp['acts'])
                    results, hung = await case_read(conn, rp['window'], acts, prog, rp.get('late', False))
                    cls, why = judge_read(prog, bytes(rp['data']), results, hung, rp['window'])
                    print('results:', results, '->', why)
                    return 1 if why else 0
                if kind == 'e2e_exit':
                    acts = unjs_acts(rp['acts'])
                    got = await case_exit(conn, acts, rp['window'], rp.get('use_run', False))
                    cls, why = judge_exit(acts, got, rp['window'])
                    print('wait ->', None if got is None else (got[0], len(got[1]), len(got[2])), '->', why)
                    return 1 if why else 0
                out = await case_drain(conn, rp['peer'], rp['size'])
                print('drain ->', out)
                bad = (rp['peer'] == 'consumed' and not (out[0] == 'returned' and out[1] <= 65536)) or \
                      (rp['peer'] == 'closed' and out[0] != 'raised')
                return 1 if bad else 0
            finally:
                conn.close()
                listener.close()
                await listener.wait_closed()
        return sshutil.run(go(), timeout=300)
    if kind in ('e2e_writer', 'e2e_reredirect'):
        async def go3():
            listener, conn = await sshutil.loopback(srv_kw={'process_factory': _server_process, 'encoding': None,
                                                            'window': 16384})
            try:
                if kind == 'e2e_writer':
                    lim = tuple(rp['limits']) if rp['limits'] else None
                    got = await case_writer(conn, lim, rp['size'], rp['nwrites'], rp['slow'], rp['via'])
                    why = judge_writer(rp['size'], got)
                else:
                    data, got = await case_reredirect(conn, rp['size'], rp['piece'], rp['slow'], 0.05)
                    why = judge_reredirect(data, got, pipe_first=not rp['slow'])
                print(kind, '->', why)
                return 1 if why else 0
            finally:
                conn.close()
                listener.close()
                await listener.wait_closed()
        return sshutil.run(go3(), timeout=300)
    if kind in ('e2e_textenc', 'e2e_pipeline'):
        async def go2():
            if kind == 'e2e_textenc':
                got = await case_textenc(rp['enc'], rp['pieces'], rp['cuts'], rp['mode'])
                why = judge_textenc(rp['pieces'], rp['mode'], got)
            else:
                listener, conn = await sshutil.loopback(srv_kw={'process_factory': _server_process, 'encoding': None})
                try:
                    got = await case_pipeline(conn, bytes(rp['out']), bytes(rp['err']), rp['src_stream'], rp['how'],
                                              rp['buffered'], rp['piece'])
                    why = judge_pipeline(bytes(rp['out']), bytes(rp['err']), rp['src_stream'], got)
                finally:
                    conn.close()
                    listener.close()
                    await listener.wait_closed()
            print(kind, '->', why)
            return 1 if why else 0
        return sshutil.run(go2(), timeout=300)
    if kind == 'redirect_e2e':
        import logging
        import random
        import shutil
        import tempfile
        logging.getLogger('asyncio').setLevel(logging.ERROR)
        tmp = tempfile.mkdtemp(prefix='c19-', dir='/var/tmp')

        async def go():
            listener, conn = await sshutil.loopback(srv_kw={'process_factory': _server_process, 'encoding': None})
            try:
                why = await redirect_case(conn, tmp, random.Random(rp['rseed']), rp['target'], rp['size'], rp['window'],
                                          rp['piece'], rp['api'], rp['stream'], rp['recv_eof'], rp['slow'])
                print('redirect ->', why)
                return 1 if why else 0
            except asyncio.TimeoutError:
                print('redirect -> did not finish')
                return 1
            finally:
                conn.close()
                listener.close()
                await listener.wait_closed()
        try:
            return sshutil.run(go(), timeout=300)
        finally:
            shutil.rmtree(tmp, ignore_errors=True)
    print('replay of kind', kind, 'needs the full stage; run ./check C19')
    return 2
