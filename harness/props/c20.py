"""C20 - Forwarded connections relay faithfully and only where permitted."""
import asyncio
import os
import shutil
import tempfile

from .. import core
from .. import c20_pair as P
from .. import c20_perm as PM
from .. import c20_e2e as E
from ..core import zl, cbool, copt, clist

IMPORTS = ('From AV Require Import Base.Prelude Model.Socks.\n'
           'From AV Require Import Model.Forward Corr.C20Corr.')

TRUSTED = [
    'C20: the model covers forward.py (forwarder pair incl. early-data buffer, EOF flags, pause propagation, '
    'close), the SOCKS4/4a/5 parser of socks.py, the listener / relayed-socket registry of a connection and the '
    'server-side permission decision of connection.py; the SSH channel between the two pairs is the subject of '
    'C07/C08 and appears here only as two FIFO queues (tunnel witnesses) and in the end-to-end oracle',
    'C20: the environment contract of the pair model (what an asyncio socket transport and an SSH channel deliver and '
    'when: `legal`) is an assumption; it is compared on every run with the stub transports of harness/c20_pair.py '
    '(chk_pair_legal) and exercised against real sockets / real channels by the end-to-end oracle only',
    'C20: kernel socket semantics, asyncio selector transports, getaddrinfo/create_server are observed, never modelled; '
    'str(ipaddress.ip_address(..)) text formatting is trusted (hosts are compared as address bytes / UTF-8 bytes)',
    'C20: Python runs with assertions enabled (default); under -O the unrepaired SOCKS loop would spin instead of raising',
    'C20: authorized_keys / certificate option *parsing* is C17/C16 territory; here the parsed option values feed the '
    'decision function (the harness writes real authorized_keys lines and real certificates, so parsing is exercised, '
    'not modelled); X.509 certificates, GSSAPI and host-based credentials carry no forwarding restrictions in asyncssh '
    'and are not generated',
    'C20: channel flow control is not in the model (the tunnel\'s channel is two FIFO queues): that a half-closed channel '
    'keeps granting window to the direction that still flows is delegated to C08 and checked here only by the end-to-end '
    'oracle (half-close, then more than one 2 MiB channel window in the other direction, every forwarding kind, both orders)',
    'C20: X11, agent and TUN/TAP forwarding are outside the property text and not covered',
]

RULE = ('pair: operation lists over {DataA d, DataB d, EofA, EofB, CloseA, CloseB, Confirm, Fail, Lost, Pause/Resume A/B} '
        'of length 1-12 from the seeded PRNG (styles: early-traffic-heavy, weighted, uniform), for a local forwarder '
        '(pending channel) and a linked remote pair, run on the real SSHLocalForwarder/SSHForwarder with stub transports; '
        'distinct = distinct (start, op list). socks: well-formed SOCKS4/4a/5 requests (generated address / name / user / '
        'methods / port / trailing data) in 6 chunkings each (whole, byte-wise, random cuts, empty chunks) plus a malformed '
        'stream (fixed hostile inputs, damaged well-formed requests, random bytes) in 3 chunkings. perm: generated '
        'credentials (authorized_keys options incl. permitopen lists, certificates with all / some / no options, password) '
        'x request kind x destination (biased to the permitopen entries, neighbours, case variants) x application answer, '
        'on a real server. registry: Begin/Finish/Close/Cleanup lists on a real connection with gated getaddrinfo. '
        'e2e: scenario templates (normal, early data, crossed EOF, loss, abrupt close/reset, listener closed, half-close followed by more '
        'than a channel window the other way) x 7 forwarding kinds; several dynamic-port listeners per connection, ended by close / abort / loss; '
        'all x 7 forwarding '
        'kinds over real loopback TCP / UNIX sockets; races: connection lost while a listener / destination connection is '
        'being created. A case is non-trivial when it relays data or reaches a decision.')


def _loop_run(coro):
    loop = asyncio.new_event_loop()
    try:
        asyncio.set_event_loop(loop)
        return loop.run_until_complete(coro)
    finally:
        try:
            loop.run_until_complete(loop.shutdown_asyncgens())
            loop.run_until_complete(loop.shutdown_default_executor())
        except Exception:
            pass
        asyncio.set_event_loop(None)
        loop.close()


# --------------------------------------------------------------------------------------------
# stage: forwarder pair

FIXED_PAIR = [
    (False, [('DataA', b'ab'), ('EofA',), ('Confirm',), ('DataB', b'x'), ('EofB',)]),
    (False, [('EofA',), ('Confirm',)]),
    (False, [('DataA', b'early'), ('EofA',), ('Confirm',)]),                      # seeded defect C20-a
    (False, [('DataA', b'e'), ('CloseA',), ('Confirm',), ('DataB', b'y')]),        # a38f966
    (False, [('CloseA',), ('Confirm',), ('PauseB',)]),
    (False, [('Confirm',), ('EofA',), ('EofB',)]),                                  # 19cc224
    (True, [('EofA',), ('EofB',)]),
    (True, [('EofB',), ('EofA',)]),
    (False, [('DataA', b'q'), ('Fail',), ('CloseA',)]),
    (False, [('DataA', b'q'), ('Lost',)]),
    (False, [('Confirm',), ('DataA', b'1'), ('Lost',), ('DataB', b'2')]),
    (False, [('Confirm',), ('PauseA',), ('DataB', b'zz'), ('ResumeA',), ('PauseB',), ('ResumeB',), ('CloseB',)]),
    (True, [('DataA', b'1'), ('DataB', b'2'), ('CloseA',), ('DataB', b'3'), ('CloseB',)]),
]


def stage_pair(ctx):
    rng = ctx.rng
    n = 900 if ctx.tier == 'quick' else 9000
    work = list(FIXED_PAIR)
    while len(work) < n:
        linked = rng.random() < 0.3
        work.append((linked, P.gen_ops(rng, linked)))

    async def go():
        res = []
        for linked, ops in work:
            res.append(await P.run_pair(ops, linked))
        return res
    results = _loop_run(go())
    cases, lcases = [], []
    hit = {'early_data_flushed': 0, 'early_eof_with_data': 0, 'both_eof': 0, 'closeA_before_confirm': 0,
           'lost_pending': 0, 'lost_confirmed': 0, 'pause': 0, 'fail': 0, 'undeliverable_op': 0}
    for (linked, ops), r in zip(work, results):
        cases.append(P.pair_case(ops, linked, r))
        lcases.append(P.legal_case(ops, linked, r))
        names = [o[0] for o in ops]
        deliv = r['delivered']
        nontriv = bool(r['outA'] or r['outB'])
        ctx.note_case(('pair', linked, tuple(ops)), nontrivial=nontriv)
        ctx.count('pair_linked' if linked else 'pair_local')
        if not all(deliv):
            hit['undeliverable_op'] += 1
        if not linked and 'Confirm' in names:
            ci = names.index('Confirm')
            pre = [(o, d) for o, d in list(zip(ops, deliv))[:ci] if d]
            if any(o[0] == 'DataA' and o[1] for o, _ in pre):
                hit['early_data_flushed'] += 1
                if any(o[0] == 'EofA' for o, _ in pre):
                    hit['early_eof_with_data'] += 1
            if any(o[0] == 'CloseA' for o, _ in pre):
                hit['closeA_before_confirm'] += 1
        if any(o[0] == 'EofA' and d for o, d in zip(ops, deliv)) and any(o[0] == 'EofB' and d for o, d in zip(ops, deliv)):
            hit['both_eof'] += 1
        if 'Lost' in names:
            hit['lost_confirmed' if r['made'] else 'lost_pending'] += 1
        if any(k.startswith('Pause') for k in names):
            hit['pause'] += 1
        if 'Fail' in names:
            hit['fail'] += 1
        bad = P.pair_oracle(ops, linked, r)
        if bad:
            kind = 'pair'
            if not linked and 'Confirm' in names and 'CloseA' in names[:names.index('Confirm')]:
                kind = 'lost_before_confirm'
            elif any('both directions have seen EOF' in b for b in bad):
                kind = 'crossed_eof_leak'
            ctx.failing_input('forwarder pair: ' + '; '.join(bad),
                              {'kind': kind, 'linked': linked, 'ops': [[o[0]] + ([list(o[1])] if len(o) > 1 else []) for o in ops],
                               'observed': {'outA': repr(r['outA']), 'outB': repr(r['outB'])}})
    ctx.sample({'pair_ops': [o[0] for o in work[2][1]], 'outB': repr(results[2]['outB'])})
    ty = 'bool * list op * pair_obs'
    mism = ctx.coq_cases('pair', IMPORTS, 'chk_pair', cases, ty=ty)
    if mism:
        i = mism[0]
        ctx.broke('correspondence:pair', f'{len(mism)} mismatches, first: start={"linked" if work[i][0] else "local"} '
                                         f'ops={work[i][1]!r} observed={ {k: results[i][k] for k in ("outA", "outB", "asrt", "made", "trA", "trB", "bufA", "eofA", "eofB")} !r}')
    lm = ctx.coq_cases('pair_legal', IMPORTS, 'chk_pair_legal', lcases, ty='bool * list op * list bool')
    if lm:
        i = lm[0]
        ctx.broke('correspondence:pair_legal', f'{len(lm)} mismatches, first: start={"linked" if work[i][0] else "local"} '
                                               f'ops={work[i][1]!r} delivered={results[i]["delivered"]!r}')
    for k, v in hit.items():
        ctx.count('pair_' + k, v)
        if v == 0:
            ctx.broke('vacuity:pair_' + k, 'no generated operation list reached this situation')


def replay_pair(rp):
    ops = [tuple([o[0]] + ([bytes(o[1])] if len(o) > 1 else [])) for o in rp['ops']]
    r = _loop_run(P.run_pair(ops, rp['linked']))
    bad = P.pair_oracle(ops, rp['linked'], r)
    print('pair replay:', bad or 'ok')
    return 1 if bad else 0


# --------------------------------------------------------------------------------------------
# stage: SOCKS

def socks_oracle_good(data_expected, tail, r):
    bad = []
    (host, port) = data_expected
    if r['crashed']:
        bad.append('exception %s escaped for a well-formed request' % r['crashed'])
    if r['req'] is None:
        bad.append('well-formed request not served')
    else:
        if r['req'][0] != host or r['req'][2] != port:
            bad.append('request for %r:%d parsed as %r:%d' % (host, port, r['req'][0], r['req'][2]))
        if r['ncalls'] != 1:
            bad.append('forward() called %d times' % r['ncalls'])
    if r['resid'] is not None and r['req'] is not None and r['resid'] != tail:
        bad.append('trailing data %r handed on as %r' % (tail, r['resid']))
    if ('close',) in r['out']:
        bad.append('connection closed for a well-formed request')
    # RFC 1928: the success reply is VER REP RSV ATYP BND.ADDR BND.PORT, its length fixed by ATYP
    for e in r['out']:
        if e[0] == 'w' and len(e[1]) >= 4 and e[1][:3] == b'\x05\x00\x00':
            want = {1: 10, 4: 22}.get(e[1][3], (5 + e[1][4] + 2) if e[1][3] == 3 and len(e[1]) > 4 else None)
            if want != len(e[1]):
                bad.append('SOCKS5 reply with address type %d is %d bytes long, a client reads %r'
                           % (e[1][3], len(e[1]), want))
    return bad


def socks_oracle_bad(r):
    bad = []
    if r['crashed']:
        bad.append('exception %s escaped to the event loop' % r['crashed'])
    if ('close',) in r['out'] and r['req'] is not None and r['out'].index(('close',)) < len(r['out']) - 1:
        pass
    return bad


def stage_socks(ctx):
    rng = ctx.rng
    n_good = 60 if ctx.tier == 'quick' else 500
    n_bad = 150 if ctx.tier == 'quick' else 1500
    cases, meta = [], []
    kinds_seen = set()
    nclosed = nserved_bad = 0
    for _ in range(n_good):
        data, exp, kind = P.enc_socks(rng)
        tail = bytes(rng.randrange(256) for _ in range(rng.choice([0, 0, 1, 5, 40])))
        kinds_seen.add(kind)
        for chunks in P.chunkings(rng, data + tail, 6):
            r = P.run_socks(chunks)
            cases.append(P.socks_case(chunks, r))
            meta.append(chunks)
            ctx.note_case(('socks', tuple(chunks)), nontrivial=True)
            ctx.count('socks_wellformed_' + kind)
            bad = socks_oracle_good(exp, tail, r)
            if bad:
                ctx.failing_input('SOCKS: ' + '; '.join(bad), {'kind': 'socks', 'chunks': [list(c) for c in chunks],
                                                                'wellformed': True, 'expect': [list(exp[0]), exp[1]], 'tail': list(tail)})
    for _ in range(n_bad):
        data = P.malformed_socks(rng)
        for chunks in P.chunkings(rng, data, 3):
            r = P.run_socks(chunks)
            cases.append(P.socks_case(chunks, r))
            meta.append(chunks)
            ctx.note_case(('socks', tuple(chunks)), nontrivial=bool(r['out']))
            ctx.count('socks_malformed')
            if ('close',) in r['out']:
                nclosed += 1
            if r['req'] is not None:
                nserved_bad += 1
            bad = socks_oracle_bad(r)
            if bad:
                ctx.failing_input('SOCKS: ' + '; '.join(bad), {'kind': 'socks_assert', 'chunks': [list(c) for c in chunks],
                                                                'wellformed': False})
    # EOF from the client after a prefix of a request (and after complete / malformed input)
    ecases, emeta = [], []
    n_eof = 120 if ctx.tier == 'quick' else 1200
    stuck = 0
    for i in range(n_eof):
        data = P.enc_socks(rng)[0] if i % 3 else P.malformed_socks(rng)
        cut = rng.randint(0, len(data)) if rng.random() < 0.8 else len(data)
        chunks = P.chunkings(rng, data[:cut], 3)[-1]
        r = P.run_socks(chunks, eof=True)
        d, k, c = r['eof']
        ecases.append(f'({clist(chunks, zl)}, ({cbool(d)}, {cbool(k)}, {cbool(c)}))')
        emeta.append(chunks)
        ctx.note_case(('socks_eof', tuple(chunks)), nontrivial=True)
        ctx.count('socks_eof')
        if d and r['req'] is None and not c:
            stuck += 1
            ctx.failing_input('SOCKS: client half-closed before its request was complete and the forwarder keeps the '
                              'socket open with no tunnel that could ever close it',
                              {'kind': 'socks_eof_before_request', 'eof': True, 'chunks': [list(x) for x in chunks], 'wellformed': False})
    em = ctx.coq_cases('socks_eof', IMPORTS, 'chk_socks_eof', ecases, ty='list bytes * (bool * bool * bool)')
    if em:
        ctx.broke('correspondence:socks_eof', f'{len(em)} mismatches, first: chunks={emeta[em[0]]!r} observed={P.run_socks(emeta[em[0]], eof=True)["eof"]!r}')
    ctx.count('socks_eof_left_open', stuck)
    ctx.sample({'socks_chunks': [list(c) for c in meta[1][:6]]})
    mism = ctx.coq_cases('socks', IMPORTS, 'chk_socks', cases, ty='list bytes * socks_obs')
    if mism:
        i = mism[0]
        ctx.broke('correspondence:socks', f'{len(mism)} mismatches, first: chunks={meta[i]!r} observed={P.run_socks(meta[i])!r}')
    if kinds_seen != {'4', '4a', '5v4', '5v6', '5name'}:
        ctx.broke('vacuity:socks_kinds', repr(kinds_seen))
    if nclosed < 10:
        ctx.broke('vacuity:socks_rejects', f'only {nclosed} malformed inputs were rejected')
    ctx.count('socks_malformed_closed', nclosed)
    ctx.count('socks_malformed_still_served', nserved_bad)


def replay_socks(rp):
    chunks = [bytes(c) for c in rp['chunks']]
    if rp.get('eof'):
        r = P.run_socks(chunks, eof=True)
        d, k, c = r['eof']
        bad = d and r['req'] is None and not c
        print('socks eof replay:', r['eof'], 'FAIL' if bad else 'ok')
        return 1 if bad else 0
    r = P.run_socks(chunks)
    if rp.get('wellformed'):
        bad = socks_oracle_good((bytes(rp['expect'][0]), rp['expect'][1]), bytes(rp['tail']), r)
    else:
        bad = socks_oracle_bad(r)
    print('socks replay:', bad or 'ok')
    return 1 if bad else 0


# --------------------------------------------------------------------------------------------
# stage: permission

def stage_perm(ctx):
    rng = ctx.rng
    ncred = 26 if ctx.tier == 'quick' else 120
    nreq = 14 if ctx.tier == 'quick' else 24
    creds = PM.gen_credentials(rng, ncred)
    work = [(c, PM.gen_requests(rng, c, nreq)) for c in creds]

    async def go():
        out = []
        for c, reqs in work:
            out.append(await PM.run_credential(rng, c, reqs))
        return out
    results = _loop_run(go())
    cases, meta = [], []
    seen = {'Served': 0, 'Prohibited': 0, 'Refused': 0}
    buckets = {'cert_empty_options': 0, 'cert_pf': 0, 'cert_no_pf': 0, 'no_pf_key': 0, 'permitopen_hit': 0,
               'permitopen_miss': 0, 'permitopen_wildcard_port': 0}
    for (c, reqs), obs in zip(work, results):
        for req, o in zip(reqs, obs):
            cases.append(PM.perm_case(c, req, o))
            meta.append((c, req, o))
            v = o[0]
            if v in seen:
                seen[v] += 1
            ctx.note_case(('perm', repr(c), req), nontrivial=True)
            ctx.count('perm_' + req[0])
            if c['cert'] is not None:
                if not any(c['cert'].values()):
                    buckets['cert_empty_options'] += 1
                buckets['cert_pf' if c['cert']['pf'] else 'cert_no_pf'] += 1
            if c['no_pf']:
                buckets['no_pf_key'] += 1
            if req[0] == 'KDirectTcp' and c['po']:
                if (req[1], req[2]) in c['po']:
                    buckets['permitopen_hit'] += 1
                elif (req[1], None) in c['po']:
                    buckets['permitopen_wildcard_port'] += 1
                else:
                    buckets['permitopen_miss'] += 1
            bad = PM.perm_oracle(c, req, o)
            if bad:
                ctx.failing_input('permission: ' + '; '.join(bad) + f' (credential {c!r}, request {req!r}, outcome {o!r})',
                                  {'kind': 'perm', 'cred': c, 'req': list(req)})
    ctx.sample({'perm': [repr(meta[0][0]), list(meta[0][1]), list(meta[0][2])]})
    ty = 'reqkind * keyopts * certopts * bool * bytes * Z * verdict * bool'
    mism = ctx.coq_cases('perm', IMPORTS, 'chk_perm', cases, ty=ty)
    if mism is None:
        return
    if mism:
        c, req, o = meta[mism[0]]
        ctx.broke('correspondence:perm', f'{len(mism)} mismatches, first: credential={c!r} request={req!r} observed={o!r}')
    for k, v in list(seen.items()) + list(buckets.items()):
        ctx.count('perm_' + k, v)
        if v == 0:
            ctx.broke('vacuity:perm_' + k, 'no generated case')


def replay_perm(rp):
    import random
    c = rp['cred']
    c['po'] = [tuple(x) for x in c['po']]
    req = tuple(rp['req'])
    obs = _loop_run(PM.run_credential(random.Random(0), c, [req]))
    bad = PM.perm_oracle(c, req, obs[0])
    print('perm replay:', obs, bad or 'ok')
    return 1 if bad else 0


# --------------------------------------------------------------------------------------------
# stage: registry

def stage_registry(ctx):
    rng = ctx.rng
    n = 25 if ctx.tier == 'quick' else 150
    fixed = [[('B', 1), ('F', 1), ('B', 2), ('F', 2), ('X',)], [('B', 1), ('F', 1), ('B', 2), ('F', 2), ('B', 3), ('F', 3), ('C', 2), ('X',)],
             [('B', 1), ('X',), ('F', 1)], [('B', 1), ('F', 1), ('X',)], [('B', 1), ('B', 2), ('F', 2), ('C', 2), ('X',), ('F', 1)],
             [('B', 1), ('F', 1), ('C', 1), ('B', 2), ('F', 2)]]
    work = fixed + [E.gen_registry_ops(rng) for _ in range(n)]

    async def go():
        out = []
        for ops in work:
            out.append(await E.run_registry(ops))
        return out
    results = _loop_run(go())
    cases = []
    late = 0
    for ops, (open_keys, table, applied) in zip(work, results):
        cases.append(f'({clist(applied, E.rop_coq)}, ({zl(open_keys)}, {copt(table, zl)}))')
        ctx.note_case(('registry', tuple(applied)), nontrivial=len(applied) > 1)
        ctx.count('registry')
        seen_x = False
        for o in applied:
            if o[0] == 'X':
                seen_x = True
            elif o[0] == 'F' and seen_x:
                late += 1
        # direct oracle: once the connection has been cleaned up nothing may stay open
        if any(o[0] == 'X' for o in applied) and open_keys:
            ctx.failing_input(f'listener(s) {open_keys} still accepting connections after the connection ended',
                              {'kind': 'listener_after_loss', 'ops': [list(o) for o in ops]})
    mism = ctx.coq_cases('registry', IMPORTS, 'chk_reg', cases, ty='list rop * (list Z * option (list Z))')
    if mism:
        i = mism[0]
        ctx.broke('correspondence:registry', f'{len(mism)} mismatches, first: ops={results[i][2]!r} open={results[i][0]!r} table={results[i][1]!r}')
    ctx.count('registry_finish_after_cleanup', late)
    if late == 0:
        ctx.broke('vacuity:registry_finish_after_cleanup', 'no listener creation completed after cleanup')


def replay_registry(rp):
    ops = [tuple(o) for o in rp['ops']]
    open_keys, table, applied = _loop_run(E.run_registry(ops))
    bad = any(o[0] == 'X' for o in applied) and bool(open_keys)
    print('registry replay: open', open_keys, 'FAIL' if bad else 'ok')
    return 1 if bad else 0


# --------------------------------------------------------------------------------------------
# stage: end to end over real sockets

def _workdir(ctx_work):
    d = tempfile.mkdtemp(prefix='c20-', dir=ctx_work if len(ctx_work) < 60 else None)
    return d


def run_e2e_once(sc, workdir):
    if 'multi_remote' in sc:
        return _loop_run(E.multi_remote_scenario(sc)), {}
    if 'socks_strict' in sc:
        return _loop_run(E.socks_strict_scenario(sc)), {}
    if 'dynports' in sc:
        return _loop_run(E.dynports_scenario(sc)), {}
    if 'race' in sc:
        sc = dict(sc)
        sc['workdir'] = workdir
        return _loop_run(E.race_scenario(sc)), {}
    return _loop_run(E.run_scenario(sc, workdir))


E2E_KIND = {'crossed': 'crossed_eof_leak'}


def classify(sc, bad):
    if 'multi_remote' in sc:
        return 'remote_listener_mixup'
    if 'socks_strict' in sc:
        return 'socks5_reply_length'
    if 'dynports' in sc:
        return 'dynamic_port_listener_left'
    if sc.get('template') == 'socks_partial':
        return 'socks_eof_before_request'
    if sc.get('template') == 'window':
        return 'half_close_window_stall'
    if 'race' in sc:
        return 'dest_socket_after_loss' if sc['race'].startswith('dest') else 'listener_after_loss'
    names = [s[0] for s in sc['steps']]
    if sc.get('template') == 'crossed':
        return 'crossed_eof_leak'
    if sc.get('template') == 'early' and ('rst' in names):
        return 'lost_before_confirm'
    return 'e2e'


def _window_scenario(fwd, first):
    second = 'd' if first == 'c' else 'c'
    n = E.WINDOW_PLUS // 3
    return {'fwd': fwd, 'template': 'window',
            'steps': [['connect'], ['send', 'c', 100, 1], ['send', 'd', 100, 2], ['sync'], ['eof', first], ['sync'],
                      ['send', second, n, 3], ['send', second, n + 7, 4], ['send', second, n + 11, 5], ['sync'],
                      ['eof', second], ['sync']]}


DYN_APIS = ['local_port', 'socks', 'remote_port', 'start_server', 'local_port_to_path', 'local_port_any']


def stage_e2e(ctx):
    import logging
    alog = logging.getLogger('asyncio')
    old_level = alog.level
    alog.setLevel(logging.ERROR)      # "socket.send() raised exception" when an endpoint resets mid-stream
    try:
        _stage_e2e(ctx)
    finally:
        alog.setLevel(old_level)


def _stage_e2e(ctx):
    rng = ctx.rng
    quick = ctx.tier == 'quick'
    workdir = _workdir(ctx.work)
    scs = []
    # every template x every forwarding kind at least once, then random ones
    templates = ['normal', 'early', 'crossed', 'loss', 'abrupt', 'listener']
    for t in templates:
        for f in E.FWD_KINDS:
            scs.append(E.gen_scenario(rng, t, f))
    # both half-close orders x every forwarding kind with more than a channel window afterwards
    for f in E.FWD_KINDS:
        for first in ('c', 'd'):
            scs.append(_window_scenario(f, first))
    # a SOCKS client that goes away before its request is complete
    for f, ln in (('socks5', 19), ('socks4', 13), ('socks4a', 17)):
        for n in sorted({0, 1, 2, 3, ln // 2, ln - 1} if quick else set(range(ln))):
            scs.append({'fwd': f, 'template': 'socks_partial',
                        'steps': [['connect_partial', n], [rng.choice(['eof', 'close', 'rst']), 'c'], ['settle', 30]]})
    # the two orders that used to leak, pinned
    for f in ('local_port', 'socks5', 'remote_port', 'local_path'):
        scs.append({'fwd': f, 'template': 'early', 'steps': [['hold'], ['connect'], ['send', 'c', 5, 1], ['settle', 30],
                                                               ['rst', 'c'], ['settle', 30], ['release'], ['settle', 40]]})
        scs.append({'fwd': f, 'template': 'early', 'steps': [['hold'], ['connect'], ['send', 'c', 12, 2], ['eof', 'c'], ['settle', 30],
                                                               ['release'], ['sync'], ['send', 'd', 7, 3], ['eof', 'd'], ['sync']]})
    extra = 20 if quick else 1200
    for _ in range(extra):
        scs.append(E.gen_scenario(rng))
    races = []
    for kind in ('listen_client', 'listen_server', 'listen_server_unix', 'dest', 'dest_gated'):
        for turns in ((0, 1, 3) if quick else (0, 1, 2, 3, 5, 8)):
            races.append({'race': kind, 'turns': turns})
    dyn = []
    for end in ('close', 'abort', 'cut'):
        dyn.append({'dynports': ['local_port', 'local_port'], 'end': end})
        dyn.append({'dynports': ['socks', 'socks', 'remote_port', 'remote_port'], 'end': end})
        dyn.append({'dynports': ['start_server', 'local_port_to_path', 'local_port_to_path', 'start_server', 'local_port_any',
                                 'local_port_any'], 'end': end})
    for _ in range(3 if quick else 40):
        dyn.append({'dynports': [rng.choice(DYN_APIS) for _ in range(rng.randint(2, 6))], 'end': rng.choice(['close', 'abort', 'cut'])})
    for combo in (['fixed', 'dyn'], ['dyn', 'fixed'], ['dyn', 'dyn'], ['fixed', 'fixed'], ['fixed', 'dyn', 'fixed'],
                  ['dyn', 'fixed', 'dyn'], ['fixed', 'fixed', 'dyn']):
        dyn.append({'multi_remote': combo})
    for kind in ('v4', 'v6', 'name'):
        for n in ((5000,) if quick else (1, 11, 12, 13, 5000, 200000)):
            dyn.append({'socks_strict': kind, 'n': n})
    nonrepro = 0
    tcount = {}
    relayed = 0
    failed_by = {}
    for sc in scs + races + dyn:
        name = sc.get('template') or ('race_' + sc['race'] if 'race' in sc else 'multi_remote' if 'multi_remote' in sc
                                      else 'socks_strict' if 'socks_strict' in sc else 'dynports')
        if failed_by.get(name, 0) >= 2 or sum(failed_by.values()) >= 4:
            # circuit breaker: each reproduced failure costs backstop time; two per template, four in all are enough
            ctx.count('e2e_skipped_after_failures')
            tcount[name] = tcount.get(name, 0) + 1
            continue
        bad, notes = run_e2e_once(sc, workdir)
        tcount[name] = tcount.get(name, 0) + 1
        relayed += notes.get('sent_c', 0) + notes.get('sent_d', 0) if notes else 0
        ctx.note_case(('e2e', repr(sc)), nontrivial=True)
        ctx.count('e2e_' + name)
        if 'fwd' in sc:
            ctx.count('e2e_fwd_' + sc['fwd'])
        if bad:
            bad2, _ = run_e2e_once(sc, workdir)
            if bad2:
                failed_by[name] = failed_by.get(name, 0) + 1
                ctx.log('e2e failure reproduced:', name, sc.get('fwd', ''), '; '.join(bad2)[:300])
                ctx.failing_input('end to end (%s): %s' % (name + ('/' + sc['fwd'] if 'fwd' in sc else ''), '; '.join(bad2)),
                                  {'kind': classify(sc, bad2), 'scenario': sc})
            else:
                nonrepro += 1
                ctx.log('non-reproducing e2e disagreement (not reported):', name, bad)
    ctx.cov['oracle']['e2e_non_reproducing'] = nonrepro
    ctx.cov['oracle']['e2e_bytes_relayed'] = relayed
    ctx.sample({'e2e': scs[8]})
    shutil.rmtree(workdir, ignore_errors=True)
    if relayed < 100000:
        ctx.broke('vacuity:e2e_bytes', f'only {relayed} bytes were sent through real sockets')
    if tcount.get('window', 0) < 14 or tcount.get('dynports', 0) < 9:
        ctx.broke('vacuity:e2e_window_dynports', repr(tcount))
    for t in templates:
        if tcount.get(t, 0) < 7:
            ctx.broke('vacuity:e2e_' + t, 'template not exercised on every forwarding kind')


def replay_e2e(rp):
    workdir = tempfile.mkdtemp(prefix='c20r-')
    try:
        sc = rp['scenario']
        fails = 0
        for _ in range(2):
            bad, _n = run_e2e_once(sc, workdir)
            print('e2e replay:', bad or 'ok')
            if bad:
                fails += 1
        return 1 if fails == 2 else 0
    finally:
        shutil.rmtree(workdir, ignore_errors=True)


# --------------------------------------------------------------------------------------------

def run(ctx):
    ctx.cov['rule'] = RULE
    ctx.cov['trusted_base'] += TRUSTED
    ctx.prove()
    stage_pair(ctx)
    ctx.log('pair stage done')
    stage_socks(ctx)
    ctx.log('socks stage done')
    stage_perm(ctx)
    ctx.log('permission stage done')
    stage_registry(ctx)
    ctx.log('registry stage done')
    stage_e2e(ctx)
    ctx.log('e2e stage done')


def replay(rp):
    k = rp.get('kind')
    if 'scenario' in rp:
        return replay_e2e(rp)
    if 'chunks' in rp:
        return replay_socks(rp)
    if 'cred' in rp:
        return replay_perm(rp)
    if k == 'listener_after_loss' and 'ops' in rp:
        return replay_registry(rp)
    if 'linked' in rp:
        return replay_pair(rp)
    if 'no_longer_checks' in rp:
        print('replay names a broken theorem / correspondence, no concrete input:', [b['name'] for b in rp['no_longer_checks']])
        return 1
    print('unknown replay', k)
    return 1
