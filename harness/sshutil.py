"""Small helpers to bring up real asyncssh endpoints inside the harness process."""
import asyncio
import os
import sys

_KEYS = {}


def host_key(alg='ssh-ed25519'):
    import asyncssh
    if alg not in _KEYS:
        _KEYS[alg] = asyncssh.generate_private_key(alg)
    return _KEYS[alg]


class LoopGuard:
    """Collects exceptions that reach the event loop's exception handler."""

    def __init__(self, loop):
        self.errors = []
        loop.set_exception_handler(self._h)

    def _h(self, loop, context):
        self.errors.append({k: repr(v) for k, v in context.items()})


async def loopback(server_factory=None, **kw):
    """Start a server on 127.0.0.1 and connect a client. Returns (listener, conn).
    kw: server_* options via srv_kw, client options via cli_kw."""
    import asyncssh
    srv_kw = dict(kw.pop('srv_kw', {}))
    cli_kw = dict(kw.pop('cli_kw', {}))
    if server_factory is None:
        class server_factory(asyncssh.SSHServer):
            def begin_auth(self, username):
                return False
    srv_kw.setdefault('server_host_keys', [host_key()])
    listener = await asyncssh.listen('127.0.0.1', 0, server_factory=server_factory, **srv_kw)
    port = listener.sockets[0].getsockname()[1]
    cli_kw.setdefault('known_hosts', None)
    cli_kw.setdefault('username', 'u')
    cli_kw.setdefault('client_keys', None)
    cli_kw.setdefault('config', None)
    conn = await asyncssh.connect('127.0.0.1', port, **cli_kw)
    return listener, conn


def run(coro, timeout=600):
    async def _w():
        return await asyncio.wait_for(coro, timeout)
    return asyncio.run(_w())
