"""End-to-end oracles through the stream API (SSHReader on the server side) used by C07 and C08:
channel data must arrive complete and in order also when the application reads through streams, when
break / signal / window-change requests arrive in the middle of the data, and when a line is longer
than the receive window (the reader must neither lose collected bytes nor stay paused for ever).
Real client and server over MemWire; no wall clock: completion is awaited in event-loop turns."""
import asyncio

from . import memwire


async def _turns(pred, progress, quiet_limit=3000):
    """Run event-loop turns until pred() holds; give up only after quiet_limit turns without progress."""
    last, quiet = progress(), 0
    while not pred():
        await asyncio.sleep(0)
        cur = progress()
        if cur == last:
            quiet += 1
            if quiet > quiet_limit:
                return False
        else:
            last, quiet = cur, 0
    return True


async def events_case(rng):
    """Server reads stdin with read(n); the client interleaves data with break / signal / window-change.
    Returns (failure text or None, cfg)."""
    import asyncssh
    lag = rng.choice([0, 1, 3, 8, 20])
    readn = rng.choice([-1, -1, 1, 7, 64, 4096])
    window = rng.choice([64, 4096, 2 ** 21])
    res = {'data': bytearray(), 'events': [], 'done': False, 'error': None}

    async def handle(stdin, stdout, stderr):
        try:
            while True:
                for _ in range(lag):
                    await asyncio.sleep(0)
                try:
                    data = await stdin.read(readn)
                except asyncssh.BreakReceived as e:
                    res['events'].append(('break', e.msec))
                    continue
                except asyncssh.SignalReceived as e:
                    res['events'].append(('signal', e.signal))
                    continue
                except asyncssh.TerminalSizeChanged as e:
                    res['events'].append(('winch', e.width))
                    continue
                if not data:
                    break
                res['data'] += data
        except Exception as e:                  # noqa
            res['error'] = repr(e)
        res['done'] = True
        stdout.channel.exit(0)

    class Srv(asyncssh.SSHServer):
        def begin_auth(self, u):
            return False

    tun, wire, acc, conn = await memwire.connected_pair(
        Srv, srv_kw={'session_factory': handle, 'encoding': None, 'window': window})
    sent = bytearray()
    events = []
    steps = []
    try:
        chan, sess = await conn.create_session(asyncssh.SSHClientSession, term_type='xterm', encoding=None)
        for j in range(rng.randint(3, 10)):
            n = rng.choice([1, 2, 10, 100, 1000, 5000])
            data = bytes((len(sent) + i) % 251 for i in range(n))
            sent += data
            steps.append(n)
            try:
                chan.write(data)
            except OSError:
                break
            r = rng.random()
            if r < 0.25:
                chan.send_break(10 + j)
                events.append(('break', 10 + j))
                steps.append('break')
            elif r < 0.5:
                chan.send_signal('INT')
                events.append(('signal', 'INT'))
                steps.append('signal')
            elif r < 0.7:
                chan.change_terminal_size(80 + j, 24)
                events.append(('winch', 80 + j))
                steps.append('winch')
            if rng.random() < 0.4:
                for _ in range(rng.randint(1, 6)):
                    await asyncio.sleep(0)
        try:
            chan.write_eof()
        except OSError:
            pass
        await _turns(lambda: res['done'], lambda: (len(res['data']), len(res['events'])))
        cfg = {'kind': 'stream_events', 'lag': lag, 'readn': readn, 'window': window, 'steps': steps}
        if not res['done']:
            return f'server reader never saw EOF: got {len(res["data"])} of {len(sent)} bytes', cfg
        if res['error']:
            return f'server reader raised {res["error"]}', cfg
        if bytes(res['data']) != bytes(sent):
            return (f'stream reader got {len(res["data"])} bytes, {len(sent)} were written (data around a break/signal/'
                    f'window-change lost or reordered)'), cfg
        if res['events'] != events:
            return f'channel requests seen {res["events"]} but sent {events}', cfg
        return None, cfg
    finally:
        conn.abort()
        wire.cut_link()
        await memwire.settle(4)


async def lines_case(rng):
    """Server reads stdin with readline() (or readuntil) on a small receive window; some lines are longer than
    the window.  Every byte must come out, in order, and the reader must reach EOF."""
    import asyncssh
    window = rng.choice([16, 64, 256, 4096])
    sep = rng.choice([b'\n', b'\n', b'\r\n'])
    lag = rng.choice([0, 2, 9])
    res = {'data': bytearray(), 'done': False, 'error': None, 'reads': 0}

    async def handle(stdin, stdout, stderr):
        try:
            while True:
                for _ in range(lag):
                    await asyncio.sleep(0)
                try:
                    if sep == b'\n':
                        line = await stdin.readline()
                    else:
                        line = await stdin.readuntil(sep)
                except asyncio.IncompleteReadError as e:
                    line = e.partial
                    res['data'] += line
                    res['reads'] += 1
                    if stdin.at_eof() or not line:
                        break
                    continue
                res['reads'] += 1
                if not line:
                    break
                res['data'] += line
        except Exception as e:                  # noqa
            res['error'] = repr(e)
        res['done'] = True
        stdout.channel.exit(0)

    class Srv(asyncssh.SSHServer):
        def begin_auth(self, u):
            return False

    tun, wire, acc, conn = await memwire.connected_pair(
        Srv, srv_kw={'session_factory': handle, 'encoding': None, 'window': window})
    sent = bytearray()
    lens = []
    try:
        chan, sess = await conn.create_session(asyncssh.SSHClientSession, encoding=None)
        for j in range(rng.randint(2, 8)):
            n = rng.choice([0, 1, window - 2, window - 1, window, window + 1, 3 * window + 5, 10 * window])
            n = max(0, n)
            line = bytes(97 + (len(sent) + i) % 26 for i in range(n)) + sep
            sent += line
            try:
                chan.write(line)
            except OSError:
                break               # the far end closed early: judged below (bytes missing)
            lens.append(n)
            if rng.random() < 0.4:
                for _ in range(rng.randint(1, 6)):
                    await asyncio.sleep(0)
        if rng.random() < 0.5:
            tail = bytes(65 + i % 26 for i in range(rng.choice([1, window, 2 * window + 1])))
            sent += tail
            lens.append(('tail', len(tail)))
            try:
                chan.write(tail)
            except OSError:
                pass
        try:
            chan.write_eof()
        except OSError:
            pass
        await _turns(lambda: res['done'], lambda: (len(res['data']), res['reads']))
        cfg = {'kind': 'stream_lines', 'window': window, 'sep': sep.hex(), 'lag': lag, 'lens': lens}
        if not res['done']:
            return (f'line reader stalled: got {len(res["data"])} of {len(sent)} bytes after {res["reads"]} reads and '
                    f'never reached EOF (window {window})'), cfg
        if res['error']:
            return f'line reader raised {res["error"]}', cfg
        if bytes(res['data']) != bytes(sent):
            return (f'line reader got {len(res["data"])} bytes, {len(sent)} were written (window {window}, lines of '
                    f'{lens}): bytes lost or an early end of file was reported'), cfg
        return None, cfg
    finally:
        conn.abort()
        wire.cut_link()
        await memwire.settle(4)


async def exact_case(rng):
    """A LATE reader: the server handler starts reading only after the client's data has arrived (so that one
    window sits in the stream buffer and the rest in the channel), then asks for it with readexactly(n) / read(-1)
    / read(n) loops; the client sends nothing more (and, for readexactly, no EOF) until it is answered."""
    import asyncssh
    window = rng.choice([16, 64, 1024, 4096])
    total = rng.choice([window + 1, 2 * window, 3 * window + 7, 10 * window])
    mode = rng.choice(['exactly', 'exactly', 'all', 'loop'])
    lag = rng.choice([30, 100, 400])
    res = {'data': b'', 'done': False, 'error': None}

    async def handle(stdin, stdout, stderr):
        try:
            for _ in range(lag):
                await asyncio.sleep(0)
            if mode == 'exactly':
                res['data'] = await stdin.readexactly(total)
            elif mode == 'all':
                res['data'] = await stdin.read()
            else:
                buf = bytearray()
                while len(buf) < total:
                    d = await stdin.read(rng.choice([1, 7, window, 2 * window]))
                    if not d:
                        break
                    buf += d
                res['data'] = bytes(buf)
        except Exception as e:                  # noqa
            res['error'] = repr(e)
            res['data'] = getattr(e, 'partial', b'')
        res['done'] = True
        stdout.write(b'ok')
        stdout.channel.exit(0)

    class Srv(asyncssh.SSHServer):
        def begin_auth(self, u):
            return False

    tun, wire, acc, conn = await memwire.connected_pair(
        Srv, srv_kw={'session_factory': handle, 'encoding': None, 'window': window})
    try:
        chan, sess = await conn.create_session(asyncssh.SSHClientSession, encoding=None)
        sent = bytes((i * 7) % 251 for i in range(total))
        chan.write(sent)
        if mode == 'all':
            chan.write_eof()
        await _turns(lambda: res['done'], lambda: (len(wire.log['c']), len(wire.log['s'])))
        cfg = {'kind': 'stream_exact', 'window': window, 'total': total, 'mode': mode, 'lag': lag}
        if not res['done']:
            return (f'late reader ({mode}) on a {window}-byte window never completed: {total} bytes were sent and '
                    f'nothing more will come until it answers'), cfg
        if res['data'] != sent:
            return (f'late reader ({mode}) on a {window}-byte window got {len(res["data"])} of {total} bytes'
                    f'{" (" + res["error"] + ")" if res["error"] else ""}'), cfg
        return None, cfg
    finally:
        conn.abort()
        wire.cut_link()
        await memwire.settle(4)


async def late_wait_case(rng):
    """create_process(), let more than one receive window of output pile up unread, only then wait() /
    communicate(): the call must return with the complete output."""
    import asyncssh
    window = rng.choice([64, 1024, 4096])
    total = rng.choice([window + 1, 3 * window, 5 * window + 3])
    call = rng.choice(['wait', 'communicate'])
    lag = rng.choice([50, 300])
    res = {}

    async def handle(process):
        process.stdout.write(bytes((i * 11) % 251 for i in range(total)))
        process.exit(3)

    class Srv(asyncssh.SSHServer):
        def begin_auth(self, u):
            return False

    tun, wire, acc, conn = await memwire.connected_pair(
        Srv, srv_kw={'process_factory': handle, 'encoding': None}, cli_kw={})
    try:
        proc = await conn.create_process('x', encoding=None, window=window)
        for _ in range(lag):
            await asyncio.sleep(0)

        async def waiter():
            if call == 'wait':
                r = await proc.wait()
                res['out'], res['status'] = r.stdout, r.exit_status
            else:
                out, _err = await proc.communicate()
                res['out'], res['status'] = out, proc.exit_status
        task = asyncio.ensure_future(waiter())
        await _turns(task.done, lambda: (len(wire.log['c']), len(wire.log['s'])))
        cfg = {'kind': 'late_wait', 'window': window, 'total': total, 'call': call, 'lag': lag}
        if not task.done():
            task.cancel()
            return (f'{call}() called after {total} bytes of output had piled up behind a {window}-byte window never '
                    f'returned (no WINDOW_ADJUST: the peer cannot send the rest)'), cfg
        if task.exception():
            return f'{call}() raised {task.exception()!r}', cfg
        want = bytes((i * 11) % 251 for i in range(total))
        if res['out'] != want or res['status'] != 3:
            return f'{call}() returned {len(res["out"] or b"")} of {total} bytes, exit status {res["status"]}', cfg
        return None, cfg
    finally:
        conn.abort()
        wire.cut_link()
        await memwire.settle(4)


async def text_flow_case(rng):
    """Text-mode channel carrying multi-byte characters through a small receive window, many windows long: the
    window is counted in BYTES on both sides, so the transfer must neither stall nor overrun whatever the ratio of
    characters to bytes."""
    import asyncssh
    window = rng.choice([64, 256, 1024])
    encoding = rng.choice(['utf-8', 'utf-8', 'utf-16'])
    alphabet = rng.choice(['\u65e5\u672c\u8a9e', '\u00e9\u20ac\U0001d11e', 'a\u00e9', '\U0001d11e'])
    nchars = rng.choice([6, 12, 40]) * window
    lag = rng.choice([0, 5])
    res = {'data': [], 'done': False, 'error': None}

    async def handle(stdin, stdout, stderr):
        try:
            while True:
                for _ in range(lag):
                    await asyncio.sleep(0)
                d = await stdin.read(rng.choice([1, 17, 4096]))
                if not d:
                    break
                res['data'].append(d)
        except Exception as e:                  # noqa
            res['error'] = repr(e)
        res['done'] = True
        stdout.channel.exit(0)

    class Srv(asyncssh.SSHServer):
        def begin_auth(self, u):
            return False

    tun, wire, acc, conn = await memwire.connected_pair(
        Srv, srv_kw={'session_factory': handle, 'encoding': encoding, 'window': window})
    try:
        chan, sess = await conn.create_session(asyncssh.SSHClientSession, encoding=encoding)
        text = ''.join(alphabet[i % len(alphabet)] for i in range(nchars))
        step = max(1, nchars // 7)
        for i in range(0, nchars, step):
            chan.write(text[i:i + step])
        chan.write_eof()
        await _turns(lambda: res['done'], lambda: (len(res['data']), len(wire.log['c']), len(wire.log['s'])))
        cfg = {'kind': 'text_flow', 'window': window, 'encoding': encoding, 'alphabet': alphabet, 'nchars': nchars, 'lag': lag}
        got = ''.join(res['data'])
        if not res['done']:
            return (f'text channel ({encoding}, {window}-byte window) stalled after {len(got)} of {nchars} characters '
                    f'({len(text.encode(encoding))} bytes): no further WINDOW_ADJUST'), cfg
        if res['error']:
            return f'text reader raised {res["error"]}', cfg
        if got != text:
            return f'text channel delivered {len(got)} of {nchars} characters', cfg
        return None, cfg
    finally:
        conn.abort()
        wire.cut_link()
        await memwire.settle(4)


async def reredirect_case(rng):
    """The output of a process is redirected to a consumer that stops reading (the process is paused, as it
    should be), then re-redirected to a consumer that keeps reading: from then on the window must be replenished
    and everything the peer writes must arrive, followed by EOF and the exit status."""
    import asyncssh
    window = rng.choice([512, 1024, 4096])
    # enough packets (each at most one window long) to push the first consumer's queue over its high-water mark
    part_a = bytes((i * 13) % 251 for i in range(rng.choice([24, 40]) * window))
    part_b = bytes((i * 7 + 3) % 251 for i in range(rng.choice([2, 5]) * window + 17))
    go = asyncio.Event()

    async def handle(process):
        process.stdout.write(part_a)
        await go.wait()
        process.stdout.write(part_b)
        process.exit(0)

    class Stuck:
        def __init__(self):
            self.got = bytearray()
            self.block = asyncio.Event()

        async def write(self, data):
            self.got += data
            await self.block.wait()             # never drains

        async def close(self):
            pass

    class Eager:
        def __init__(self):
            self.got = bytearray()
            self.closed = False

        async def write(self, data):
            self.got += data

        async def close(self):
            self.closed = True

    class Srv(asyncssh.SSHServer):
        def begin_auth(self, u):
            return False

    tun, wire, acc, conn = await memwire.connected_pair(Srv, srv_kw={'process_factory': handle, 'encoding': None})
    stuck, eager = Stuck(), Eager()
    cfg = {'kind': 'reredirect', 'window': window, 'part_a': len(part_a), 'part_b': len(part_b)}
    try:
        proc = await conn.create_process('x', encoding=None, window=window, stdout=stuck)
        await _turns(lambda: False, lambda: (len(wire.log['c']), len(wire.log['s']), len(stuck.got)), quiet_limit=300)
        await proc.redirect_stdout(eager)
        go.set()
        # (wait_closed() would also wait for the first consumer, which never drains: the new target seeing part B
        # and its EOF is what is required)
        await _turns(lambda: eager.closed, lambda: (len(wire.log['c']), len(wire.log['s']), len(eager.got)))
        if not eager.closed:
            return (f'after re-redirecting a paused stream to a consumer that keeps reading, the transfer stalled: the new '
                    f'target has {len(eager.got)} bytes, part B ({len(part_b)} bytes) never arrived (window {window})'), cfg
        if not bytes(eager.got).endswith(part_b):
            return f'the new redirect target got {len(eager.got)} bytes not ending with part B', cfg
        return None, cfg
    finally:
        stuck.block.set()
        conn.abort()
        wire.cut_link()
        await memwire.settle(4)


async def drain_case(rng):
    """write() more than the peer's window, then drain(), under every write-buffer-limit setting: drain() must
    return once the peer has consumed the data (and the data must be complete)."""
    import asyncssh
    window = rng.choice([64, 1024, 4096])
    limits = rng.choice([None, (0,), (0, 0), (8, 0), (1,), (3,), (4096, 0), (100, 100), (2 * window, window)])
    total = rng.choice([window + 1, 3 * window, 7 * window + 5])
    res = {'n': 0, 'done': False}

    async def handle(stdin, stdout, stderr):
        while True:
            d = await stdin.read(rng.choice([1, 100, 65536]))
            if not d:
                break
            res['n'] += len(d)
        res['done'] = True
        stdout.channel.exit(0)

    class Srv(asyncssh.SSHServer):
        def begin_auth(self, u):
            return False

    tun, wire, acc, conn = await memwire.connected_pair(
        Srv, srv_kw={'session_factory': handle, 'encoding': None, 'window': window})
    cfg = {'kind': 'drain', 'window': window, 'limits': list(limits) if limits else None, 'total': total}
    try:
        stdin, stdout, stderr = await conn.open_session(encoding=None)
        if limits is not None:
            stdin.channel.set_write_buffer_limits(*limits)
        rounds = []
        for k in range(2):
            stdin.write(bytes((i * 3 + k) % 251 for i in range(total)))
            t = asyncio.ensure_future(stdin.drain())
            await _turns(t.done, lambda: (len(wire.log['c']), len(wire.log['s']), res['n']))
            if not t.done():
                t.cancel()
                return (f'drain() after writing {total} bytes (round {k + 1}) never returned although the peer consumed '
                        f'{res["n"]} bytes; write buffer limits {limits}, peer window {window}'), cfg
            if t.exception():
                return f'drain() raised {t.exception()!r}', cfg
            rounds.append(res['n'])
        stdin.write_eof()
        await _turns(lambda: res['done'], lambda: (len(wire.log['c']), len(wire.log['s']), res['n']))
        if not res['done'] or res['n'] != 2 * total:
            return f'peer got {res["n"]} of {2 * total} bytes (limits {limits}, window {window})', cfg
        return None, cfg
    finally:
        conn.abort()
        wire.cut_link()
        await memwire.settle(4)
