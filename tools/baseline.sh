#!/bin/bash
# Run the 161 stable-pass baseline tests of BASELINE.json in the given tree (default /repo).
# usage: tools/baseline.sh [dir]   -> prints pytest tail, exit status of pytest
D=${1:-/repo}
cd "$D" || exit 2
IDS=$(/venv/bin/python - <<'P'
import json
b=json.load(open('/root/.vp/BASELINE.json'))
out=[]
for t in b['stable_pass']:
    mod,rest=t.split('::',1)
    parts=mod.split('.')
    # tests.test_x._Class -> tests/test_x.py::_Class
    out.append('/'.join(parts[:2])+'.py::'+'::'.join(parts[2:]+[rest]))
print(' '.join(out))
P
)
PYTHONPATH="$D" /venv/bin/python -m pytest -q -p no:cacheprovider --timeout=900 $IDS 2>&1 | tail -4
exit ${PIPESTATUS[0]}
