#!/bin/bash
# tools/coqmake.sh [targets...] : build coq/ (or the given .vo targets, paths relative to coq/) under the
# shared lock, regenerating _CoqProject/Makefile when the file list changed.
cd "$(dirname "$0")/.." || exit 2
exec timeout ${COQ_TIMEOUT:-1500} /venv/bin/python - "$@" <<'P'
import sys
sys.path.insert(0, '.')
from harness import core
rc, out = core.coq_make(sys.argv[1:] or None)
print(out[-6000:])
sys.exit(rc)
P
