#!/usr/bin/env python3
"""Regenerate MANIFEST.json from tools/claims.json (per-property level text) so it is always valid."""
import json, os
V = os.path.dirname(os.path.dirname(os.path.abspath(__file__)))
claims = json.load(open(os.path.join(V, 'tools', 'claims.json')))
props = [json.loads(l) for l in open(os.path.join(V, 'properties.jsonl'))]
checks, na = [], []
for p in props:
    c = claims.get(p['id'])
    if not c or c.get('not_applicable'):
        na.append({'property_id': p['id'], 'reason': (c or {}).get('not_applicable', 'check not built yet in this round; see DESIGN.md section 4 for the plan')})
        continue
    checks.append({
        'property_id': p['id'],
        'quick_cmd': f"./check {p['id']} --tier quick",
        'thorough_cmd': f"./check {p['id']} --tier thorough",
        'evidence_file': f"/verif/evidence/{p['id']}.json",
        'replay_cmd_template': f"./check {p['id']} --replay {{path}}",
        'engine': 'coq-model+correspondence',
        'level_claimed': {'category': 'proof', 'text': c['text'], 'design_ref': c.get('design_ref', 'DESIGN.md section 4 ' + p['id'])},
        'level_note': c['note'],
        'technique': c.get('technique', 'Coq 8.16 theorems about a hand-written Gallina model; model tied to /repo by in-Coq (vm_compute) correspondence on generated inputs; direct oracle on the implementation for failing-input search'),
    })
m = {
    'version': 1,
    'setup_cmd': './check --setup',
    'hooks': {'guard': 'ASYNCSSH_VERIF', 'enable': 'no source hooks are needed: checks import asyncssh from /repo (PYTHONPATH=/repo) and observe it through public API, the tunnel= hook, audit hooks and instance-level wrappers',
              'baseline_off_cmd': 'cd /repo && /venv/bin/python -m pytest -ra -q -p no:cacheprovider --timeout=900 --continue-on-collection-errors',
              'source_commits': [], 'add_only': True},
    'engines': [{'name': 'coq-model+correspondence', 'path': '/verif/check', 'serves_properties': [c['property_id'] for c in checks],
                 'kind_free_text': 'Rocq/Coq 8.16.1 proofs over Gallina models (coq/Model, coq/Proofs, coq/Props); Python harness runs the same generated cases on asyncssh and inside Coq (vm_compute) and diffs; direct oracles search for failing inputs'}],
    'checks': checks,
    'not_applicable': na,
    'notes': 'See DESIGN.md. VERIF_SEED seeds the single PRNG. ASYNCSSH_VERIF_REPO / ASYNCSSH_VERIF_OUT redirect the tree under test / the output directory for scratch runs (defaults /repo and /verif).',
}
json.dump(m, open(os.path.join(V, 'MANIFEST.json'), 'w'), indent=1)
print('checks:', [c['property_id'] for c in checks], 'not_applicable:', len(na))
