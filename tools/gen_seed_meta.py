#!/usr/bin/env python3
"""Write seeded/<Cxx-v>/meta.json for every confirmed seeded change from its notes.md (written by the
seeding sub-agent) and the 'seeded defects' table of DESIGN.md (which check catches it).
meta.json: which property it breaks, what it needs in order to manifest, what was run to confirm it."""
import json, os, re
V = os.path.dirname(os.path.dirname(os.path.abspath(__file__)))
design = open(os.path.join(V, 'DESIGN.md')).read()
rows = {}
for m in re.finditer(r'^\| (C\d\d-[a-l]) \| (.*?) \| (.*?) \|$', design, re.M):
    rows[m.group(1)] = (m.group(2), m.group(3))


def sections(text):
    out, cur, buf = {}, 'title', []
    for line in text.splitlines():
        if line.startswith('#'):
            out[cur] = '\n'.join(buf).strip()
            cur, buf = line.lstrip('# ').strip(), []
        else:
            buf.append(line)
    out[cur] = '\n'.join(buf).strip()
    return out


for d in sorted(os.listdir(os.path.join(V, 'seeded'))):
    p = os.path.join(V, 'seeded', d)
    notes = os.path.join(p, 'notes.md')
    if not os.path.isfile(os.path.join(p, 'patch.diff')):
        continue
    text = open(notes).read() if os.path.isfile(notes) else ''
    sec = sections(text)
    heads = list(sec)
    title = text.splitlines()[0].lstrip('# ').strip() if text else d

    def pick(*keys):
        for h in heads:
            if any(k in h.lower() for k in keys):
                return sec[h]
        return ''
    files = sorted(set(re.findall(r'^diff --git a/(\S+)', open(os.path.join(p, 'patch.diff')).read(), re.M)))
    meta = {
        'id': d,
        'property': d.split('-')[0],
        'title': title,
        'files_changed': files,
        'breaks': pick('clause', 'break', 'violat') or title,
        'needs_to_manifest': pick('need', 'manifest', 'trigger'),
        'demonstration': 'demo.py (exit 0 on the clean tree, non-zero on the patched tree)',
        'what_was_run': [
            'sub-agent (given only the property text and a scratch worktree of /repo): wrote patch.diff + demo.py, ran demo on clean and patched tree and the pinned 161-test suite',
            'coordinator, tools/seed_verify.sh (scratch worktree of /repo HEAD, removed afterwards): demo.py on the clean tree -> exit 0; git apply patch.diff; demo.py -> exit != 0; the 161 baseline tests of /root/.vp/BASELINE.json on the patched tree -> 161 passed',
            'coordinator, tools/try_mutant.sh %s (scratch worktree with the patch, ASYNCSSH_VERIF_REPO pointing at it): ./check %s --tier quick -> exit 1 with a VIOLATION line and a replay' % (d, d.split('-')[0]),
        ],
        'summary': rows.get(d, ('', ''))[0],
        'caught_by': rows.get(d, ('', 'see DESIGN.md section A'))[1],
    }
    json.dump(meta, open(os.path.join(p, 'meta.json'), 'w'), indent=1)
    print(d, 'caught_by' if d in rows else 'NO-ROW', len(meta['needs_to_manifest']))
