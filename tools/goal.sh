#!/bin/bash
# tools/goal.sh <file.v relative to coq/> <line> : show the proof state after the given line
F=$1; N=$2; T=/var/tmp/goal_$$.v
head -n $N /verif/coq/$F > $T; printf '\nShow.\nAbort All.\n' >> $T
cd /var/tmp && timeout 300 coqc -Q /verif/coq AV $T 2>&1 | tail -${3:-60}; rm -f /var/tmp/goal_$$.*  /var/tmp/.goal_$$.aux
