#!/bin/bash
# tools/run_all.sh [tier] [seed] : run every check registered in MANIFEST.json once and print one line per check
cd "$(dirname "$0")/.." || exit 2
TIER=${1:-quick}; SEED=${2:-0}
for id in $(python3 -c "import json;print(' '.join(c['property_id'] for c in json.load(open('MANIFEST.json'))['checks']))"); do
  t0=$(date +%s)
  out=$(VERIF_SEED=$SEED ./check $id --tier $TIER 2>&1); rc=$?
  echo "$id exit=$rc $(( $(date +%s)-t0 ))s known=$(echo "$out" | grep -c '^KNOWN-FINDING') violations=$(echo "$out" | grep -c '^VIOLATION') :: $(echo "$out" | grep 'done:' | cut -c1-120)"
done
