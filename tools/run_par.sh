#!/bin/bash
# tools/run_par.sh [tier] [seed] : stress run - every registered check at once (load robustness), one line per check
cd "$(dirname "$0")/.." || exit 2
TIER=${1:-quick}; SEED=${2:-0}; D=/var/tmp/verif-par-$SEED; mkdir -p $D
for id in $(python3 -c "import json;print(' '.join(c['property_id'] for c in json.load(open('MANIFEST.json'))['checks']))"); do
  ( t0=$(date +%s); VERIF_SEED=$SEED ./check $id --tier $TIER > $D/$id.log 2>&1; rc=$?
    echo "$id exit=$rc $(( $(date +%s)-t0 ))s known=$(grep -c '^KNOWN-FINDING' $D/$id.log) violations=$(grep -c '^VIOLATION' $D/$id.log) broken=$(grep -c 'BROKEN' $D/$id.log)" ) &
done
wait
