#!/bin/bash
# tools/seed_verify.sh <Cxx> <a|b|c|d>  (SEEDROOT=/tmp/seed2 for round 2)  : confirm a sub-agent's seeded change in a scratch worktree of /repo HEAD:
#   clean tree -> demo PASS, patched -> demo FAIL, patched -> 161 baseline pass. On success copy to seeded/<Cxx>-<v>/
P=$1; V=$2; SRC=${SEEDROOT:-/tmp/seed}/$P/$V; WT=/tmp/wtv-$P-$V
[ -f $SRC/patch.diff ] || { echo "no patch"; exit 2; }
git -C /repo worktree add -f --detach $WT HEAD >/dev/null 2>&1 || exit 2
cd $WT
PYTHONPATH=$WT timeout 300 /venv/bin/python $SRC/demo.py > /tmp/sv-$P-$V.clean 2>&1; c=$?
git apply $SRC/patch.diff || { echo "patch does not apply"; git -C /repo worktree remove --force $WT; exit 2; }
PYTHONPATH=$WT timeout 300 /venv/bin/python $SRC/demo.py > /tmp/sv-$P-$V.patched 2>&1; p=$?
b=$(/verif/tools/baseline.sh $WT | tail -1)
cd /; git -C /repo worktree remove --force $WT
echo "$P-$V clean_exit=$c patched_exit=$p baseline: $b"
if [ $c = 0 ] && [ $p != 0 ] && echo "$b" | grep -q "^161 passed"; then
  D=/verif/seeded/$P-$V; mkdir -p $D; cp $SRC/patch.diff $SRC/demo.py $D/; cp $SRC/notes.md $D/notes.md 2>/dev/null
  echo CONFIRMED; exit 0
fi
echo NOT-CONFIRMED; exit 1
