#!/bin/bash
# tools/try_mutant.sh <Cxx-v> [check ids...] : apply seeded/<Cxx-v>/patch.diff to a scratch worktree of /repo HEAD,
# run the checks against it (ASYNCSSH_VERIF_REPO), remove the worktree.
M=$1; shift; IDS=${@:-${M%%-*}}
WT=/var/tmp/verif-mutwt-$M
git -C /repo worktree add -f --detach $WT HEAD >/dev/null 2>&1 || exit 2
trap 'cd /; git -C /repo worktree remove --force $WT; rm -rf /var/tmp/verif-mut-$M' EXIT
cd $WT && git apply /verif/seeded/$M/patch.diff || exit 2
cd /verif
for id in $IDS; do
  ASYNCSSH_VERIF_REPO=$WT ASYNCSSH_VERIF_OUT=/var/tmp/verif-mut-$M ./check $id --tier ${TIER:-quick} > /var/tmp/verif-mut-$M-$id.log 2>&1; rc=$?
  echo "$M check=$id exit=$rc $(grep -c '^VIOLATION' /var/tmp/verif-mut-$M-$id.log) violation lines; first: $(grep -m1 -A1 '^VIOLATION' /var/tmp/verif-mut-$M-$id.log | tr '\n' ' ' | cut -c1-400)"
done
